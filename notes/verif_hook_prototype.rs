//! Verification hooks (prototype): dump the compiled program as JSON.
use crate::api::Regex;
use crate::bytesearch::ByteSet;
use crate::insn::{CompiledRegex, Insn, StartPredicate};
use std::fmt::Write;

fn bytes_json(b: &[u8]) -> String {
    let v: Vec<String> = b.iter().map(|x| x.to_string()).collect();
    format!("[{}]", v.join(","))
}

fn insn_json(i: &Insn) -> String {
    macro_rules! bs { ($name:expr, $v:expr) => { format!("{{\"op\":\"{}\",\"bytes\":{}}}", $name, bytes_json(&$v[..])) }; }
    match i {
        Insn::Goal => "{\"op\":\"Goal\"}".into(),
        Insn::JustFail => "{\"op\":\"JustFail\"}".into(),
        Insn::Char(c) => format!("{{\"op\":\"Char\",\"c\":{}}}", c),
        Insn::StartOfLine { multiline } => format!("{{\"op\":\"StartOfLine\",\"multiline\":{}}}", multiline),
        Insn::EndOfLine { multiline } => format!("{{\"op\":\"EndOfLine\",\"multiline\":{}}}", multiline),
        Insn::MatchAny => "{\"op\":\"MatchAny\"}".into(),
        Insn::MatchAnyExceptLineTerminator => "{\"op\":\"MatchAnyExceptLT\"}".into(),
        Insn::EnterLoop(f) => format!(
            "{{\"op\":\"EnterLoop\",\"id\":{},\"min\":{},\"max\":{},\"greedy\":{},\"exit\":{}}}",
            f.loop_id, f.min_iters.min(1 << 30), if f.max_iters == usize::MAX { -1 } else { f.max_iters.min(1 << 30) as i64 }, f.greedy, f.exit),
        Insn::LoopAgain { begin } => format!("{{\"op\":\"LoopAgain\",\"begin\":{}}}", begin),
        Insn::Loop1CharBody { min_iters, max_iters, greedy } => format!(
            "{{\"op\":\"Loop1CharBody\",\"min\":{},\"max\":{},\"greedy\":{}}}",
            (*min_iters).min(1 << 30), if *max_iters == usize::MAX { -1 } else { (*max_iters).min(1 << 30) as i64 }, greedy),
        Insn::Jump { target } => format!("{{\"op\":\"Jump\",\"target\":{}}}", target),
        Insn::Alt { secondary } => format!("{{\"op\":\"Alt\",\"secondary\":{}}}", secondary),
        Insn::BeginCaptureGroup(g) => format!("{{\"op\":\"BeginCG\",\"g\":{}}}", g),
        Insn::EndCaptureGroup(g) => format!("{{\"op\":\"EndCG\",\"g\":{}}}", g),
        Insn::ResetCaptureGroup(g) => format!("{{\"op\":\"ResetCG\",\"g\":{}}}", g),
        Insn::BackRef { group, icase } => format!("{{\"op\":\"BackRef\",\"g\":{},\"icase\":{}}}", group, icase),
        Insn::Bracket(idx) => format!("{{\"op\":\"Bracket\",\"idx\":{}}}", idx),
        Insn::AsciiBracket(bm) => {
            let v: Vec<u8> = (0u8..=127).filter(|b| bm.contains(*b)).collect();
            format!("{{\"op\":\"ByteSet\",\"bytes\":{}}}", bytes_json(&v))
        }
        Insn::Lookahead { negate, start_group, end_group, continuation } => format!(
            "{{\"op\":\"Look\",\"behind\":false,\"negate\":{},\"sg\":{},\"eg\":{},\"cont\":{}}}", negate, start_group, end_group, continuation),
        Insn::Lookbehind { negate, start_group, end_group, continuation } => format!(
            "{{\"op\":\"Look\",\"behind\":true,\"negate\":{},\"sg\":{},\"eg\":{},\"cont\":{}}}", negate, start_group, end_group, continuation),
        Insn::WordBoundary { invert } => format!("{{\"op\":\"WordBoundary\",\"invert\":{},\"uicase\":false}}", invert),
        Insn::WordBoundaryUnicodeICase { invert } => format!("{{\"op\":\"WordBoundary\",\"invert\":{},\"uicase\":true}}", invert),
        Insn::CharSet(cs) => { let v: Vec<String> = cs.iter().map(|c| c.to_string()).collect(); format!("{{\"op\":\"CharSet\",\"chars\":[{}]}}", v.join(",")) }
        Insn::ByteSet2(b) => bs!("ByteSet", b.0),
        Insn::ByteSet3(b) => bs!("ByteSet", b.0),
        Insn::ByteSet4(b) => bs!("ByteSet", b.0),
        Insn::ByteSeq1(v) => bs!("ByteSeq", v), Insn::ByteSeq2(v) => bs!("ByteSeq", v), Insn::ByteSeq3(v) => bs!("ByteSeq", v),
        Insn::ByteSeq4(v) => bs!("ByteSeq", v), Insn::ByteSeq5(v) => bs!("ByteSeq", v), Insn::ByteSeq6(v) => bs!("ByteSeq", v),
        Insn::ByteSeq7(v) => bs!("ByteSeq", v), Insn::ByteSeq8(v) => bs!("ByteSeq", v), Insn::ByteSeq9(v) => bs!("ByteSeq", v),
        Insn::ByteSeq10(v) => bs!("ByteSeq", v), Insn::ByteSeq11(v) => bs!("ByteSeq", v), Insn::ByteSeq12(v) => bs!("ByteSeq", v),
        Insn::ByteSeq13(v) => bs!("ByteSeq", v), Insn::ByteSeq14(v) => bs!("ByteSeq", v), Insn::ByteSeq15(v) => bs!("ByteSeq", v),
        Insn::ByteSeq16(v) => bs!("ByteSeq", v),
    }
}

pub(crate) fn program_json(cr: &CompiledRegex) -> String {
    let mut s = String::new();
    s.push_str("{\"insns\":[");
    for (i, insn) in cr.insns.iter().enumerate() {
        if i > 0 { s.push(','); }
        s.push_str(&insn_json(insn));
    }
    s.push_str("],\"brackets\":[");
    for (i, b) in cr.brackets.iter().enumerate() {
        if i > 0 { s.push(','); }
        let ivs: Vec<String> = b.cps.intervals().iter().map(|iv| format!("[{},{}]", iv.first, iv.last)).collect();
        write!(s, "{{\"invert\":{},\"ivs\":[{}]}}", b.invert, ivs.join(",")).unwrap();
    }
    let sp = match &cr.start_pred {
        StartPredicate::Arbitrary => "{\"kind\":\"Arbitrary\"}".to_string(),
        StartPredicate::ByteSet1(b) => format!("{{\"kind\":\"ByteSet\",\"bytes\":{}}}", bytes_json(b)),
        StartPredicate::ByteSet2(b) => format!("{{\"kind\":\"ByteSet\",\"bytes\":{}}}", bytes_json(b)),
        StartPredicate::ByteSet3(b) => format!("{{\"kind\":\"ByteSet\",\"bytes\":{}}}", bytes_json(b)),
        StartPredicate::ByteSeq(f) => format!("{{\"kind\":\"ByteSeq\",\"bytes\":{}}}", bytes_json(f.needle())),
        StartPredicate::ByteBracket(bm) => { let v: Vec<u8> = (0u8..=255).filter(|b| bm.contains(*b)).collect(); format!("{{\"kind\":\"ByteSet\",\"bytes\":{}}}", bytes_json(&v)) }
        StartPredicate::StartAnchored => "{\"kind\":\"StartAnchored\"}".to_string(),
    };
    write!(s, "],\"start_pred\":{},\"loops\":{},\"groups\":{},\"unicode\":{}}}", sp, cr.loops, cr.groups, cr.flags.unicode).unwrap();
    s
}

impl Regex {
    pub fn verif_program_json(&self) -> String { program_json(self.verif_cr()) }
}
