---- MODULE SearcherTrace ----
(* Design-time prototype: trace validation of RegexSearcher step streams against the std Searcher contract. *)
EXTENDS Naturals, Integers, Sequences, TLC, Json, IOUtils

Rec == ndJsonDeserialize(IOEnv.TRACE)
N == Len(Rec)

VARIABLES l, run, len, ms, fpos, fidx, fdone, bpos, bidx, bdone, skipping, bad
vars == <<l, run, len, ms, fpos, fidx, fdone, bpos, bidx, bdone, skipping, bad>>

Done == [k |-> "D", a |-> -1, b |-> -1]

ExpFwd == IF fdone THEN Done
          ELSE IF fidx < Len(ms)
               THEN LET m == ms[fidx + 1] IN
                    IF fpos < m[1] THEN [k |-> "R", a |-> fpos, b |-> m[1]] ELSE [k |-> "M", a |-> m[1], b |-> m[2]]
               ELSE IF fpos < len THEN [k |-> "R", a |-> fpos, b |-> len] ELSE Done

ExpBack == IF bdone THEN Done
           ELSE IF bidx < Len(ms)
                THEN LET m == ms[Len(ms) - bidx] IN
                     IF m[2] < bpos THEN [k |-> "R", a |-> m[2], b |-> bpos] ELSE [k |-> "M", a |-> m[1], b |-> m[2]]
                ELSE IF bpos > 0 THEN [k |-> "R", a |-> 0, b |-> bpos] ELSE Done

Logged(e) == [k |-> e.k, a |-> e.a, b |-> e.b]

Init == /\ l = 1 /\ run = 0 /\ len = 0 /\ ms = <<>> /\ fpos = 0 /\ fidx = 0 /\ fdone = FALSE
        /\ bpos = 0 /\ bidx = 0 /\ bdone = FALSE /\ skipping = FALSE /\ bad = {}

Reset == /\ l <= N /\ Rec[l].ev = "reset"
         /\ l' = l + 1 /\ run' = run + 1 /\ len' = Rec[l].len /\ ms' = Rec[l].matches
         /\ fpos' = 0 /\ fidx' = 0 /\ fdone' = FALSE
         /\ bpos' = Rec[l].len /\ bidx' = 0 /\ bdone' = FALSE /\ skipping' = FALSE /\ bad' = bad

Fwd == /\ l <= N /\ Rec[l].ev = "next" /\ ~skipping
       /\ Logged(Rec[l]) = ExpFwd
       /\ LET e == ExpFwd IN
            /\ fpos' = IF e.k = "D" THEN fpos ELSE e.b
            /\ fidx' = IF e.k = "M" THEN fidx + 1 ELSE fidx
            /\ fdone' = (e.k = "D")
       /\ l' = l + 1 /\ UNCHANGED <<run, len, ms, bpos, bidx, bdone, skipping, bad>>

Back == /\ l <= N /\ Rec[l].ev = "next_back" /\ ~skipping
        /\ Logged(Rec[l]) = ExpBack
        /\ LET e == ExpBack IN
             /\ bpos' = IF e.k = "D" THEN bpos ELSE e.a
             /\ bidx' = IF e.k = "M" THEN bidx + 1 ELSE bidx
             /\ bdone' = (e.k = "D")
        /\ l' = l + 1 /\ UNCHANGED <<run, len, ms, fpos, fidx, fdone, skipping, bad>>

\* A logged step the contract does not allow: remember the run, skip to the next reset.
Mismatch == /\ l <= N /\ Rec[l].ev \in {"next", "next_back"} /\ ~skipping
            /\ Logged(Rec[l]) # (IF Rec[l].ev = "next" THEN ExpFwd ELSE ExpBack)
            /\ bad' = bad \cup {run} /\ skipping' = TRUE /\ l' = l + 1
            /\ UNCHANGED <<run, len, ms, fpos, fidx, fdone, bpos, bidx, bdone>>
Skip == /\ l <= N /\ skipping /\ Rec[l].ev # "reset" /\ l' = l + 1
        /\ UNCHANGED <<run, len, ms, fpos, fidx, fdone, bpos, bidx, bdone, skipping, bad>>

Next == Reset \/ Fwd \/ Back \/ Mismatch \/ Skip
Spec == Init /\ [][Next]_vars

\* Contract invariants of the streams the *model* emits (checked in every state)
TilingInv == /\ 0 <= fpos /\ fpos <= len /\ 0 <= bpos /\ bpos <= len
             /\ (fdone /\ ~skipping => fpos = len /\ fidx = Len(ms))
             /\ (bdone /\ ~skipping => bpos = 0 /\ bidx = Len(ms))

Consumed == l = N + 1
Report == (l = N + 1) => (bad = {} \/ PrintT(<<"BAD_RUNS", bad>>))
====
