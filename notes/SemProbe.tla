---- MODULE SemProbe ----
EXTENDS Naturals, Integers, Sequences, TLC, Json, IOUtils, SequencesExt, FiniteSets, Functions

Cases == ndJsonDeserialize(IOEnv.CASES)
NCases == Len(Cases)

LT == {"\n"}
Word == {"a","b","A","_"}
Undef == <<-1,-1>>

FlatMap(F(_), seq) == FoldLeft(LAMBDA acc, r: acc \o F(r), <<>>, seq)

RECURSIVE Run(_,_,_,_,_), CatRun(_,_,_,_,_,_), Rep(_,_,_,_,_,_,_,_,_), Groups(_)

Groups(n) ==
  CASE n.t = "grp" -> {n.id} \cup Groups(n.b)
    [] n.t \in {"cat","alt"} -> UNION {Groups(n.xs[i]) : i \in DOMAIN n.xs}
    [] n.t \in {"ncg","rep","look"} -> Groups(n.b)
    [] OTHER -> {}

\* h: haystack (seq of chars); fl: flags record; st = [p |-> pos (0-based), c |-> caps]
Run(n, st, fwd, h, fl) ==
  LET pos == st.p IN
  CASE n.t = "empty" -> <<st>>
    [] n.t \in {"chr","any","cls"} ->
        IF (fwd /\ pos >= Len(h)) \/ (~fwd /\ pos <= 0) THEN <<>>
        ELSE LET ch == IF fwd THEN h[pos+1] ELSE h[pos]
                 np == IF fwd THEN pos+1 ELSE pos-1
                 ok == CASE n.t = "chr" -> ch = n.c
                         [] n.t = "any" -> fl.s \/ ch \notin LT
                         [] OTHER -> (ch \in ToSet(n.cs)) # n.neg
             IN IF ok THEN << [st EXCEPT !.p = np] >> ELSE <<>>
    [] n.t = "cat" -> CatRun(IF fwd THEN n.xs ELSE Reverse(n.xs), 1, st, fwd, h, fl)
    [] n.t = "alt" -> FlatMap(LAMBDA x: Run(x, st, fwd, h, fl), n.xs)
    [] n.t = "ncg" -> Run(n.b, st, fwd, h, fl)
    [] n.t = "grp" -> LET rs == Run(n.b, st, fwd, h, fl)
                      IN [i \in DOMAIN rs |-> [rs[i] EXCEPT !.c[n.id+1] = IF fwd THEN <<pos, rs[i].p>> ELSE <<rs[i].p, pos>>]]
    [] n.t = "rep" -> Rep(n.b, n.min, n.max, n.greedy, Groups(n.b), st, fwd, h, fl)
    [] n.t = "bref" -> LET c == st.c[n.id+1] IN
          IF c = Undef THEN <<st>>
          ELSE LET L == c[2]-c[1]
                   s0 == IF fwd THEN pos ELSE pos - L
               IN IF s0 < 0 \/ s0 + L > Len(h) THEN <<>>
                  ELSE IF \A k \in 1..L : h[c[1]+k] = h[s0+k]
                       THEN << [st EXCEPT !.p = IF fwd THEN pos+L ELSE pos-L] >> ELSE <<>>
    [] n.t = "look" -> LET rs == Run(n.b, st, ~n.behind, h, fl) IN
          IF n.neg THEN (IF rs = <<>> THEN <<st>> ELSE <<>>)
          ELSE (IF rs = <<>> THEN <<>> ELSE << [st EXCEPT !.c = rs[1].c] >>)
    [] n.t = "bol" -> IF pos = 0 \/ (fl.m /\ h[pos] \in LT) THEN <<st>> ELSE <<>>
    [] n.t = "eol" -> IF pos = Len(h) \/ (fl.m /\ h[pos+1] \in LT) THEN <<st>> ELSE <<>>
    [] n.t = "wb" -> LET a == pos > 0 /\ h[pos] \in Word
                         b == pos < Len(h) /\ h[pos+1] \in Word
                     IN IF ((a # b) # n.neg) THEN <<st>> ELSE <<>>

CatRun(xs, k, st, fwd, h, fl) ==
  IF k > Len(xs) THEN <<st>>
  ELSE FlatMap(LAMBDA r: CatRun(xs, k+1, r, fwd, h, fl), Run(xs[k], st, fwd, h, fl))

\* max = -1 means unbounded
Rep(b, mn, mx, greedy, gs, st, fwd, h, fl) ==
  IF mx = 0 THEN <<st>>
  ELSE LET st1 == [st EXCEPT !.c = [i \in DOMAIN st.c |-> IF (i-1) \in gs THEN Undef ELSE st.c[i]]]
           iter == FlatMap(LAMBDA r: IF mn = 0 /\ r.p = st.p THEN <<>>
                                     ELSE Rep(b, IF mn = 0 THEN 0 ELSE mn-1, IF mx = -1 THEN -1 ELSE mx-1, greedy, gs, r, fwd, h, fl),
                           Run(b, st1, fwd, h, fl))
       IN IF mn > 0 THEN iter
          ELSE IF greedy THEN iter \o <<st>> ELSE <<st>> \o iter

RECURSIVE FirstFrom(_,_,_,_,_)
FirstFrom(ast, ng, s, h, fl) ==
  IF s > Len(h) THEN <<>>
  ELSE LET rs == Run(ast, [p |-> s, c |-> [i \in 1..ng |-> Undef]], TRUE, h, fl)
       IN IF rs # <<>> THEN << <<s, rs[1].p>> >> \o rs[1].c
          ELSE FirstFrom(ast, ng, s+1, h, fl)

Expected(case) == FirstFrom(case.ast, case.ng, 0, case.hay, case.fl)

VARIABLE i
Init == i \in 1..16
Next == i + 16 <= NCases /\ i' = i + 16
Judge == i <= NCases => LET c == Cases[i] IN
            (Expected(c) = c.obs) \/ PrintT(<<"MISMATCH", i, c.pat, c.hay, Expected(c), c.obs>>)
====
