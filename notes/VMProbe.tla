---- MODULE VMProbe ----
(* Design-time prototype of the backtracking VM as a TLA+ run-to-completion operator, *)
(* executed on programs dumped from the real compiler. *)
EXTENDS Naturals, Integers, Sequences, TLC, Json, IOUtils, SequencesExt, FiniteSets

Cases == ndJsonDeserialize(IOEnv.CASES)
NCases == Len(Cases)

None == -1
LT == {10, 13, 8232, 8233}
IsWordCp(c) == (c >= 97 /\ c <= 122) \/ (c >= 65 /\ c <= 90) \/ (c >= 48 /\ c <= 57) \/ c = 95
IsWordCpUI(c) == IsWordCp(c) \/ c = 383 \/ c = 8490

IsCont(b) == b >= 128 /\ b < 192
SeqLen(b0) == IF b0 < 128 THEN 1 ELSE IF b0 >= 240 THEN 4 ELSE IF b0 >= 224 THEN 3 ELSE 2
Decode(B, p, n) ==
  CASE n = 1 -> B[p+1]
    [] n = 2 -> (B[p+1]-192)*64 + (B[p+2]-128)
    [] n = 3 -> (B[p+1]-224)*4096 + (B[p+2]-128)*64 + (B[p+3]-128)
    [] n = 4 -> (B[p+1]-240)*262144 + (B[p+2]-128)*4096 + (B[p+3]-128)*64 + (B[p+4]-128)
NextRight(B, p) == IF p >= Len(B) THEN <<>> ELSE LET n == SeqLen(B[p+1]) IN <<Decode(B, p, n), p+n>>
LeftLen(B, p) == IF ~IsCont(B[p]) THEN 1 ELSE IF ~IsCont(B[p-1]) THEN 2 ELSE IF ~IsCont(B[p-2]) THEN 3 ELSE 4
NextLeft(B, p) == IF p <= 0 THEN <<>> ELSE LET n == LeftLen(B, p) IN <<Decode(B, p-n, n), p-n>>
NextCp(B, p, fwd) == IF fwd THEN NextRight(B, p) ELSE NextLeft(B, p)
PeekRight(B, p) == LET r == NextRight(B, p) IN IF r = <<>> THEN None ELSE r[1]
PeekLeft(B, p) == LET r == NextLeft(B, p) IN IF r = <<>> THEN None ELSE r[1]

InIvs(ivs, c) == \E i \in DOMAIN ivs : ivs[i][1] <= c /\ c <= ivs[i][2]

\* single-char matchers: new position or None
NextByteIn(B, p, fwd, bytes) ==
  IF fwd THEN (IF p < Len(B) /\ B[p+1] \in ToSet(bytes) THEN p+1 ELSE None)
  ELSE (IF p > 0 /\ B[p] \in ToSet(bytes) THEN p-1 ELSE None)
MatchBytes(B, p, fwd, bytes) ==
  LET n == Len(bytes) IN
  IF fwd THEN (IF p + n <= Len(B) /\ SubSeq(B, p+1, p+n) = bytes THEN p+n ELSE None)
  ELSE (IF p - n >= 0 /\ SubSeq(B, p-n+1, p) = bytes THEN p-n ELSE None)

Scm(P, insn, B, p, fwd) ==
  CASE insn.op = "ByteSeq" -> MatchBytes(B, p, fwd, insn.bytes)
    [] insn.op = "ByteSet" -> NextByteIn(B, p, fwd, insn.bytes)
    [] OTHER ->
       LET r == NextCp(B, p, fwd) IN
       IF r = <<>> THEN None
       ELSE LET c == r[1]
                ok == CASE insn.op = "Char" -> c = insn.c
                        [] insn.op = "CharSet" -> c \in ToSet(insn.chars)
                        [] insn.op = "Bracket" -> LET bc == P.brackets[insn.idx+1] IN InIvs(bc.ivs, c) # bc.invert
                        [] insn.op = "MatchAny" -> TRUE
                        [] insn.op = "MatchAnyExceptLT" -> c \notin LT
            IN IF ok THEN r[2] ELSE None

IsScm(insn) == insn.op \in {"ByteSeq", "ByteSet", "Char", "CharSet", "Bracket", "MatchAny", "MatchAnyExceptLT"}

RECURSIVE ScmRepeat(_,_,_,_,_,_)
\* match up to n times (n = -1: unbounded); returns <<count, pos>>
ScmRepeat(P, insn, B, p, fwd, n) ==
  IF n = 0 THEN <<0, p>>
  ELSE LET np == Scm(P, insn, B, p, fwd) IN
       IF np = None THEN <<0, p>>
       ELSE LET r == ScmRepeat(P, insn, B, np, fwd, IF n = -1 THEN -1 ELSE n-1) IN <<r[1]+1, r[2]>>

GNone == [s |-> None, e |-> None]
Exhausted == [k |-> "Exhausted"]

Push(s, e) == [s EXCEPT !.bts = Append(@, e)]
Pop(s) == [s EXCEPT !.bts = SubSeq(@, 1, Len(@)-1)]

Fold1(c) == IF c >= 65 /\ c <= 90 THEN c + 32 ELSE c   \* prototype: ASCII-only folding

RECURSIVE Run(_,_,_,_), Backtrack(_,_,_,_), RunLoop(_,_,_,_,_,_)

\* result: [ok |-> BOOLEAN, pos, groups, loops]
Backtrack(P, B, fwd, s) ==
  LET bt == s.bts[Len(s.bts)] IN
  CASE bt.k = "Exhausted" -> [ok |-> FALSE, pos |-> s.pos, groups |-> s.groups, loops |-> s.loops, steps |-> s.steps]
    [] bt.k = "SetPosition" -> Run(P, B, fwd, [Pop(s) EXCEPT !.ip = bt.ip, !.pos = bt.pos])
    [] bt.k = "SetLoopData" -> Backtrack(P, B, fwd, [Pop(s) EXCEPT !.loops[bt.id+1] = bt.data])
    [] bt.k = "SetCaptureGroup" -> Backtrack(P, B, fwd, [Pop(s) EXCEPT !.groups[bt.id+1] = bt.data])
    [] bt.k = "EnterNonGreedyLoop" ->
         LET lf == P.insns[bt.ip+1]
             pos == bt.data.entry
             s1 == [s EXCEPT !.bts[Len(s.bts)] = [k |-> "SetLoopData", id |-> lf.id, data |-> [iters |-> bt.data.iters, entry |-> bt.orig_pos]],
                             !.loops[lf.id+1] = bt.data]
             \* prepare_to_enter_loop
             s2 == [Push(s1, [k |-> "SetLoopData", id |-> lf.id, data |-> bt.data])
                      EXCEPT !.loops[lf.id+1] = [iters |-> bt.data.iters + 1, entry |-> pos], !.ip = bt.ip + 1, !.pos = pos]
         IN Run(P, B, fwd, s2)
    [] bt.k = "GreedyLoop1Char" ->
         IF bt.max = bt.min THEN Backtrack(P, B, fwd, Pop(s))
         ELSE LET r == NextCp(B, bt.max, ~fwd)
                  nm == r[2]
              IN Run(P, B, fwd, [s EXCEPT !.bts[Len(s.bts)].max = nm, !.pos = nm, !.ip = bt.cont])
    [] bt.k = "NonGreedyLoop1Char" ->
         IF bt.max = bt.min THEN Backtrack(P, B, fwd, Pop(s))
         ELSE LET r == NextCp(B, bt.min, fwd)
                  nm == r[2]
              IN Run(P, B, fwd, [s EXCEPT !.bts[Len(s.bts)].min = nm, !.pos = nm, !.ip = bt.cont])

RunLoop(P, B, fwd, s, lf, lip) ==
  LET ld == s.loops[lf.id+1]
      it == ld.iters
      doTaken == lf.max = -1 \/ it < lf.max
      doNot == it >= lf.min
      taken == lip + 1
      nottaken == lf.exit
      Prep(st) == [Push(st, [k |-> "SetLoopData", id |-> lf.id, data |-> st.loops[lf.id+1]])
                     EXCEPT !.loops[lf.id+1] = [iters |-> it + 1, entry |-> s.pos], !.ip = taken]
  IN IF ld.entry = s.pos /\ it > lf.min THEN Backtrack(P, B, fwd, s)
     ELSE CASE ~doTaken /\ ~doNot -> Backtrack(P, B, fwd, s)
            [] ~doTaken /\ doNot -> Run(P, B, fwd, [s EXCEPT !.ip = nottaken])
            [] doTaken /\ ~doNot -> Run(P, B, fwd, Prep(s))
            [] doTaken /\ doNot /\ ~lf.greedy ->
                 LET s1 == [s EXCEPT !.loops[lf.id+1].entry = s.pos]
                     s2 == Push(s1, [k |-> "EnterNonGreedyLoop", ip |-> lip, orig_pos |-> ld.entry, data |-> s1.loops[lf.id+1]])
                 IN Run(P, B, fwd, [s2 EXCEPT !.ip = nottaken])
            [] OTHER ->
                 Run(P, B, fwd, Prep(Push(s, [k |-> "SetPosition", ip |-> nottaken, pos |-> s.pos])))

Run(P, B, fwd, s0) ==
  LET s == [s0 EXCEPT !.steps = @ + 1]
      insn == P.insns[s.ip+1]
      pos == s.pos
      NextOrBt(ok) == IF ok THEN Run(P, B, fwd, [s EXCEPT !.ip = @ + 1]) ELSE Backtrack(P, B, fwd, s)
  IN
  CASE IsScm(insn) ->
         LET np == Scm(P, insn, B, pos, fwd) IN
         IF np = None THEN Backtrack(P, B, fwd, s) ELSE Run(P, B, fwd, [s EXCEPT !.ip = @ + 1, !.pos = np])
    [] insn.op = "WordBoundary" ->
         LET a == PeekLeft(B, pos)  b == PeekRight(B, pos)
             wa == a # None /\ (IF insn.uicase THEN IsWordCpUI(a) ELSE IsWordCp(a))
             wb == b # None /\ (IF insn.uicase THEN IsWordCpUI(b) ELSE IsWordCp(b))
         IN NextOrBt((wa # wb) # insn.invert)
    [] insn.op = "StartOfLine" -> LET a == PeekLeft(B, pos) IN NextOrBt(a = None \/ (insn.multiline /\ a \in LT))
    [] insn.op = "EndOfLine" -> LET b == PeekRight(B, pos) IN NextOrBt(b = None \/ (insn.multiline /\ b \in LT))
    [] insn.op = "Jump" -> Run(P, B, fwd, [s EXCEPT !.ip = insn.target])
    [] insn.op = "BeginCG" ->
         LET g == insn.g + 1
             s1 == Push(s, [k |-> "SetCaptureGroup", id |-> insn.g, data |-> s.groups[g]])
         IN Run(P, B, fwd, [s1 EXCEPT !.ip = @ + 1, !.groups[g] = IF fwd THEN [@ EXCEPT !.s = pos] ELSE [@ EXCEPT !.e = pos]])
    [] insn.op = "EndCG" ->
         LET g == insn.g + 1
             s1 == Push(s, [k |-> "SetCaptureGroup", id |-> insn.g, data |-> s.groups[g]])
         IN Run(P, B, fwd, [s1 EXCEPT !.ip = @ + 1, !.groups[g] = IF fwd THEN [@ EXCEPT !.e = pos] ELSE [@ EXCEPT !.s = pos]])
    [] insn.op = "ResetCG" ->
         LET g == insn.g + 1
             s1 == Push(s, [k |-> "SetCaptureGroup", id |-> insn.g, data |-> s.groups[g]])
         IN Run(P, B, fwd, [s1 EXCEPT !.ip = @ + 1, !.groups[g] = GNone])
    [] insn.op = "BackRef" ->
         LET cg == s.groups[insn.g + 1] IN
         IF cg.s = None \/ cg.e = None THEN NextOrBt(TRUE)
         ELSE IF ~insn.icase THEN
                LET np == MatchBytes(B, pos, fwd, SubSeq(B, cg.s + 1, cg.e)) IN
                IF np = None THEN Backtrack(P, B, fwd, s) ELSE Run(P, B, fwd, [s EXCEPT !.ip = @ + 1, !.pos = np])
              ELSE \* prototype: ASCII-only, byte-wise folded compare
                LET n == cg.e - cg.s
                    st == IF fwd THEN pos ELSE pos - n
                    ok == st >= 0 /\ st + n <= Len(B) /\ \A k \in 1..n : Fold1(B[cg.s + k]) = Fold1(B[st + k])
                IN IF ok THEN Run(P, B, fwd, [s EXCEPT !.ip = @ + 1, !.pos = IF fwd THEN pos + n ELSE pos - n]) ELSE Backtrack(P, B, fwd, s)
    [] insn.op = "Look" ->
         LET saved == [i \in (insn.sg+1)..insn.eg |-> s.groups[i]]
             inner == Run(P, B, ~insn.behind, [ip |-> s.ip + 1, pos |-> pos, loops |-> s.loops, groups |-> s.groups, bts |-> <<Exhausted>>, steps |-> s.steps])
             keep == inner.ok /\ ~insn.negate
             groups1 == IF keep THEN inner.groups
                        ELSE [i \in DOMAIN s.groups |-> IF i \in DOMAIN saved THEN saved[i] ELSE inner.groups[i]]
             undo == IF keep THEN [j \in 1..(insn.eg - insn.sg) |-> [k |-> "SetCaptureGroup", id |-> insn.sg + j - 1, data |-> saved[insn.sg + j]]] ELSE <<>>
             s1 == [s EXCEPT !.groups = groups1, !.loops = inner.loops, !.bts = @ \o undo, !.steps = inner.steps]
         IN IF inner.ok # insn.negate THEN Run(P, B, fwd, [s1 EXCEPT !.ip = insn.cont]) ELSE Backtrack(P, B, fwd, s1)
    [] insn.op = "Alt" -> Run(P, B, fwd, [Push(s, [k |-> "SetPosition", ip |-> insn.secondary, pos |-> pos]) EXCEPT !.ip = @ + 1])
    [] insn.op = "EnterLoop" ->
         LET s1 == [Push(s, [k |-> "SetLoopData", id |-> insn.id, data |-> s.loops[insn.id+1]]) EXCEPT !.loops[insn.id+1].iters = 0]
         IN RunLoop(P, B, fwd, s1, insn, s.ip)
    [] insn.op = "LoopAgain" -> RunLoop(P, B, fwd, s, P.insns[insn.begin+1], insn.begin)
    [] insn.op = "Loop1CharBody" ->
         LET body == P.insns[s.ip + 2]
             rmin == ScmRepeat(P, body, B, pos, fwd, insn.min)
         IN IF rmin[1] < insn.min THEN Backtrack(P, B, fwd, s)
            ELSE LET minpos == rmin[2]
                     rmax == ScmRepeat(P, body, B, minpos, fwd, IF insn.max = -1 THEN -1 ELSE insn.max - insn.min)
                     maxpos == rmax[2]
                     cont == s.ip + 2
                     s1 == IF minpos = maxpos THEN s
                           ELSE Push(s, [k |-> IF insn.greedy THEN "GreedyLoop1Char" ELSE "NonGreedyLoop1Char", cont |-> cont, min |-> minpos, max |-> maxpos])
                 IN Run(P, B, fwd, [s1 EXCEPT !.ip = cont, !.pos = IF insn.greedy THEN maxpos ELSE minpos])
    [] insn.op = "Goal" -> [ok |-> TRUE, pos |-> pos, groups |-> s.groups, loops |-> s.loops, steps |-> s.steps]
    [] insn.op = "JustFail" -> Backtrack(P, B, fwd, s)

RECURSIVE FirstFrom(_,_,_,_)
FirstFrom(P, B, p, loops) ==
  LET r == Run(P, B, TRUE, [ip |-> 0, pos |-> p, loops |-> loops,
                            groups |-> [i \in 1..P.groups |-> GNone], bts |-> <<Exhausted>>, steps |-> 0])
  IN IF r.ok THEN << << <<p, r.pos>> >> \o [i \in 1..P.groups |->
                         IF r.groups[i].s = None \/ r.groups[i].e = None THEN <<-1,-1>> ELSE <<r.groups[i].s, r.groups[i].e>>] >>
     ELSE LET nx == NextRight(B, p) IN IF nx = <<>> THEN <<>> ELSE FirstFrom(P, B, nx[2], r.loops)

Expected(c) == FirstFrom(c.prog, c.bytes, 0, [i \in 1..c.prog.loops |-> [iters |-> 0, entry |-> 0]])

VARIABLE i
Init == i \in 1..16
Next == i + 16 <= NCases /\ i' = i + 16
Judge == i <= NCases => LET c == Cases[i] IN
            (Expected(c) = c.bt /\ c.bt = c.pv) \/ PrintT(<<"MISMATCH", i, Expected(c), c.bt, c.pv>>)
====
