---- MODULE GrammarProbe ----
(* Design-time prototype: deterministic recogniser for ES2025 Pattern, legacy (Annex B) and u mode. *)
(* 0 means "syntax error"; positions are 1-based indices of the next unread character.             *)
EXTENDS Naturals, Integers, Sequences, TLC, Json, IOUtils, FiniteSets

Cases == ndJsonDeserialize(IOEnv.CASES)
NCases == Len(Cases)

At(s, i) == IF i >= 1 /\ i <= Len(s) THEN s[i] ELSE -1
IsDigit(c) == c >= 48 /\ c <= 57
IsOct(c) == c >= 48 /\ c <= 55
IsHex(c) == IsDigit(c) \/ (c >= 97 /\ c <= 102) \/ (c >= 65 /\ c <= 70)
IsAlpha(c) == (c >= 97 /\ c <= 122) \/ (c >= 65 /\ c <= 90)
HexVal(c) == IF IsDigit(c) THEN c - 48 ELSE IF c >= 97 THEN c - 87 ELSE c - 55
Syntax == {94, 36, 92, 46, 42, 43, 63, 40, 41, 91, 93, 123, 125, 124}
IdStart(c) == IsAlpha(c) \/ c = 36 \/ c = 95
IdPart(c) == IdStart(c) \/ IsDigit(c)

RECURSIVE Digits(_,_), NumVal(_,_,_,_)
Digits(s, i) == IF IsDigit(At(s, i)) THEN Digits(s, i+1) ELSE i
\* value of digits s[i..j), saturating at 100000
NumVal(s, i, j, acc) == IF i >= j THEN acc ELSE NumVal(s, i+1, j, IF acc > 10000 THEN 100000 ELSE acc*10 + (s[i]-48))

\* braced quantifier starting at '{' (position i). Returns [e |-> end or 0, lo, hi (-1 = unbounded)]
Braced(s, i) ==
  LET d1 == Digits(s, i+1) IN
  IF d1 = i+1 THEN [e |-> 0, lo |-> 0, hi |-> 0]
  ELSE LET lo == NumVal(s, i+1, d1, 0) IN
       IF At(s, d1) = 125 THEN [e |-> d1+1, lo |-> lo, hi |-> lo]
       ELSE IF At(s, d1) = 44 THEN
              LET d2 == Digits(s, d1+1) IN
              IF At(s, d2) = 125 THEN [e |-> d2+1, lo |-> lo, hi |-> IF d2 = d1+1 THEN -1 ELSE NumVal(s, d1+1, d2, 0)]
              ELSE [e |-> 0, lo |-> 0, hi |-> 0]
            ELSE [e |-> 0, lo |-> 0, hi |-> 0]

\* After an atom ending at e: consume an optional quantifier. allowed = quantifier permitted here.
\* Returns new end, or 0 on error.
Quant(s, e, allowed) ==
  LET c == At(s, e)
      q == IF c \in {42, 43, 63} THEN e+1
           ELSE IF c = 123 THEN LET b == Braced(s, e) IN
                  IF b.e = 0 THEN e   \* not a quantifier; '{' handled by the next Term
                  ELSE IF b.hi # -1 /\ b.lo > b.hi THEN 0 ELSE b.e
           ELSE e
  IN IF q = 0 THEN 0
     ELSE IF q = e THEN e
     ELSE IF ~allowed THEN 0
     ELSE IF At(s, q) = 63 THEN q+1 ELSE q

\* ---- pre-scan: number of capturing groups, set of group names (as sequences), NamedCaptureGroups flag
RECURSIVE SkipClass(_,_), NameEnd(_,_), Scan(_,_,_,_)
SkipClass(s, i) == LET c == At(s, i) IN
  IF c = -1 THEN i ELSE IF c = 92 THEN SkipClass(s, i+2) ELSE IF c = 93 THEN i+1 ELSE SkipClass(s, i+1)
\* i at first char of name; returns index of '>' or 0
NameEnd(s, i) == LET c == At(s, i) IN IF c = 62 THEN i ELSE IF IdPart(c) THEN NameEnd(s, i+1) ELSE 0
ValidNameAt(s, i) == IdStart(At(s, i)) /\ NameEnd(s, i+1) # 0     \* i = first char after '<'
Scan(s, i, ng, names) ==
  LET c == At(s, i) IN
  IF c = -1 THEN [ng |-> ng, names |-> names]
  ELSE IF c = 92 THEN Scan(s, i+2, ng, names)
  ELSE IF c = 91 THEN Scan(s, SkipClass(s, i+1), ng, names)
  ELSE IF c = 40 THEN
         IF At(s, i+1) # 63 THEN Scan(s, i+1, ng+1, names)
         ELSE IF At(s, i+2) = 60 /\ ValidNameAt(s, i+3)
              THEN Scan(s, i+1, ng+1, names \cup {SubSeq(s, i+3, NameEnd(s, i+4) - 1)})
              ELSE Scan(s, i+1, ng, names)
  ELSE Scan(s, i+1, ng, names)

\* ---- escapes.  i = position of the character after the backslash.
\* Returns [e |-> end or 0, v |-> code point or -1 (class escape / not a single char)]
HexN(s, i, n) == \A k \in 0..(n-1) : IsHex(At(s, i+k))
RECURSIVE HexRun(_,_)
HexRun(s, i) == IF IsHex(At(s, i)) THEN HexRun(s, i+1) ELSE i
RECURSIVE HexValue(_,_,_,_)
HexValue(s, i, j, acc) == IF i >= j THEN acc ELSE HexValue(s, i+1, j, IF acc > 1114111 THEN 2000000 ELSE acc*16 + HexVal(s[i]))

Fail == [e |-> 0, v |-> -1]
CharEscape(s, i, env, inClass) ==
  LET d == At(s, i) IN
  CASE d = -1 -> Fail
    [] d \in {102, 110, 114, 116, 118} -> [e |-> i+1, v |-> CASE d = 102 -> 12 [] d = 110 -> 10 [] d = 114 -> 13 [] d = 116 -> 9 [] d = 118 -> 11]
    [] d = 99 ->   \* c
         IF IsAlpha(At(s, i+1)) THEN [e |-> i+2, v |-> At(s, i+1) % 32]
         ELSE IF env.u THEN Fail
         ELSE IF inClass /\ (IsDigit(At(s, i+1)) \/ At(s, i+1) = 95) THEN [e |-> i+2, v |-> At(s, i+1) % 32]
         ELSE [e |-> i, v |-> 92]          \* the backslash is a literal; 'c' is read again
    [] d = 48 /\ ~IsDigit(At(s, i+1)) -> [e |-> i+1, v |-> 0]
    [] IsDigit(d) ->   \* legacy octal / identity; (backreferences are handled by the caller)
         IF env.u THEN Fail
         ELSE IF d >= 56 THEN [e |-> i+1, v |-> d]
         ELSE LET d2 == At(s, i+1)  d3 == At(s, i+2) IN
              IF ~IsOct(d2) THEN [e |-> i+1, v |-> d - 48]
              ELSE IF d >= 52 THEN [e |-> i+2, v |-> (d-48)*8 + (d2-48)]
              ELSE IF IsOct(d3) THEN [e |-> i+3, v |-> (d-48)*64 + (d2-48)*8 + (d3-48)]
              ELSE [e |-> i+2, v |-> (d-48)*8 + (d2-48)]
    [] d = 120 ->  \* x
         IF HexN(s, i+1, 2) THEN [e |-> i+3, v |-> HexVal(s[i+1])*16 + HexVal(s[i+2])]
         ELSE IF env.u THEN Fail ELSE [e |-> i+1, v |-> 120]
    [] d = 117 ->  \* u
         IF env.u /\ At(s, i+1) = 123 THEN
              LET h == HexRun(s, i+2) IN
              IF h > i+2 /\ At(s, h) = 125 /\ HexValue(s, i+2, h, 0) <= 1114111 THEN [e |-> h+1, v |-> HexValue(s, i+2, h, 0)] ELSE Fail
         ELSE IF HexN(s, i+1, 4) THEN [e |-> i+5, v |-> HexValue(s, i+1, i+5, 0)]
         ELSE IF env.u THEN Fail ELSE [e |-> i+1, v |-> 117]
    [] d \in Syntax \/ d = 47 -> [e |-> i+1, v |-> d]
    [] OTHER -> IF env.u THEN Fail
                ELSE IF d = 107 /\ env.n THEN Fail
                ELSE [e |-> i+1, v |-> d]

\* ---- character class (non-v). i = position of '['. Returns end or 0.
ClassAtom(s, j, env) ==
  LET c == At(s, j) IN
  IF c = -1 THEN Fail
  ELSE IF c # 92 THEN [e |-> j+1, v |-> c]
  ELSE LET d == At(s, j+1) IN
       IF d = -1 THEN Fail
       ELSE IF d = 98 THEN [e |-> j+2, v |-> 8]
       ELSE IF d = 45 THEN (IF env.u THEN [e |-> j+2, v |-> 45] ELSE [e |-> j+2, v |-> 45])
       ELSE IF d \in {100, 68, 115, 83, 119, 87} THEN [e |-> j+2, v |-> -1]
       ELSE IF d \in {112, 80} /\ env.u THEN Fail     \* property escapes are not generated by this probe
       ELSE IF IsDigit(d) /\ d # 48 /\ env.u THEN Fail
       ELSE CharEscape(s, j+1, env, TRUE)

RECURSIVE ClassBody(_,_,_)
ClassBody(s, j, env) ==
  LET c == At(s, j) IN
  IF c = -1 THEN 0
  ELSE IF c = 93 THEN j+1
  ELSE LET a == ClassAtom(s, j, env) IN
       IF a.e = 0 THEN 0
       ELSE IF At(s, a.e) = 45 /\ At(s, a.e+1) # 93 /\ At(s, a.e+1) # -1 THEN
              LET b == ClassAtom(s, a.e+1, env) IN
              IF b.e = 0 THEN 0
              ELSE IF a.v = -1 \/ b.v = -1 THEN (IF env.u THEN 0 ELSE ClassBody(s, b.e, env))
              ELSE IF a.v > b.v THEN 0
              ELSE ClassBody(s, b.e, env)
            ELSE ClassBody(s, a.e, env)
Class(s, i, env) == ClassBody(s, IF At(s, i+1) = 94 THEN i+2 ELSE i+1, env)

\* ---- modifiers "(?ims-ims:"  i = position after "(?".  Returns position after ':' or 0.
RECURSIVE Flags(_,_,_)
Flags(s, i, seen) == LET c == At(s, i) IN
  IF c \in {105, 109, 115} THEN (IF c \in seen THEN [e |-> 0, seen |-> seen] ELSE Flags(s, i+1, seen \cup {c}))
  ELSE [e |-> i, seen |-> seen]
Modifiers(s, i) ==
  LET a == Flags(s, i, {}) IN
  IF a.e = 0 THEN 0
  ELSE IF At(s, a.e) = 58 THEN (IF a.seen = {} THEN 0 ELSE a.e + 1)
  ELSE IF At(s, a.e) = 45 THEN
         LET b == Flags(s, a.e+1, {}) IN
         IF b.e = 0 THEN 0
         ELSE IF At(s, b.e) # 58 THEN 0
         ELSE IF a.seen = {} /\ b.seen = {} THEN 0
         ELSE IF a.seen \cap b.seen # {} THEN 0
         ELSE b.e + 1
  ELSE 0

RECURSIVE Disj(_,_,_), AltSeq(_,_,_), Term(_,_,_)

Close(s, e, quantOk) == IF e = 0 THEN 0 ELSE IF At(s, e) # 41 THEN 0 ELSE Quant(s, e+1, quantOk)

Term(s, i, env) ==
  LET c == At(s, i) IN
  CASE c \in {94, 36} -> Quant(s, i+1, FALSE)
    [] c = 92 ->
         LET d == At(s, i+1) IN
         IF d = -1 THEN 0
         ELSE IF d \in {98, 66} THEN Quant(s, i+2, FALSE)
         ELSE IF IsDigit(d) /\ d # 48 THEN
                LET de == Digits(s, i+1)  val == NumVal(s, i+1, de, 0) IN
                IF val <= env.ng THEN Quant(s, de, TRUE)
                ELSE IF env.u THEN 0
                ELSE LET r == CharEscape(s, i+1, env, FALSE) IN IF r.e = 0 THEN 0 ELSE Quant(s, r.e, TRUE)
         ELSE IF d \in {100, 68, 115, 83, 119, 87} THEN Quant(s, i+2, TRUE)
         ELSE IF d \in {112, 80} /\ env.u THEN 0     \* not generated by this probe
         ELSE IF d = 107 /\ (env.u \/ env.n) THEN
                IF At(s, i+2) = 60 /\ ValidNameAt(s, i+3) /\ SubSeq(s, i+3, NameEnd(s, i+4) - 1) \in env.names
                THEN Quant(s, NameEnd(s, i+4) + 1, TRUE) ELSE 0
         ELSE LET r == CharEscape(s, i+1, env, FALSE) IN IF r.e = 0 THEN 0 ELSE Quant(s, r.e, TRUE)
    [] c = 46 -> Quant(s, i+1, TRUE)
    [] c = 91 -> LET e == Class(s, i, env) IN IF e = 0 THEN 0 ELSE Quant(s, e, TRUE)
    [] c = 40 ->
         IF At(s, i+1) # 63 THEN Close(s, Disj(s, i+1, env), TRUE)
         ELSE LET d == At(s, i+2) IN
              IF d \in {61, 33} THEN Close(s, Disj(s, i+3, env), ~env.u)
              ELSE IF d = 58 THEN Close(s, Disj(s, i+3, env), TRUE)
              ELSE IF d = 60 THEN
                     IF At(s, i+3) \in {61, 33} THEN Close(s, Disj(s, i+4, env), FALSE)
                     ELSE IF ValidNameAt(s, i+3) THEN Close(s, Disj(s, NameEnd(s, i+4) + 1, env), TRUE)
                     ELSE 0
              ELSE LET me == Modifiers(s, i+2) IN IF me = 0 THEN 0 ELSE Close(s, Disj(s, me, env), TRUE)
    [] c \in {42, 43, 63, 41, 124, -1} -> 0
    [] c \in {93, 125} -> IF env.u THEN 0 ELSE Quant(s, i+1, TRUE)
    [] c = 123 -> IF env.u THEN 0 ELSE IF Braced(s, i).e # 0 THEN 0 ELSE Quant(s, i+1, TRUE)
    [] OTHER -> Quant(s, i+1, TRUE)

AltSeq(s, i, env) ==
  LET c == At(s, i) IN
  IF c \in {-1, 41, 124} THEN i
  ELSE LET t == Term(s, i, env) IN IF t = 0 THEN 0 ELSE AltSeq(s, t, env)

Disj(s, i, env) ==
  LET a == AltSeq(s, i, env) IN
  IF a = 0 THEN 0 ELSE IF At(s, a) = 124 THEN Disj(s, a+1, env) ELSE a

Valid(s, u) ==
  LET sc == Scan(s, 1, 0, {})
      env == [u |-> u, n |-> u \/ sc.names # {}, ng |-> sc.ng, names |-> sc.names]
  IN Disj(s, 1, env) = Len(s) + 1

VARIABLE i
Init == i \in 1..16
Next == i + 16 <= NCases /\ i' = i + 16
Judge == i <= NCases => LET c == Cases[i] IN
            (Valid(c.p, c.u) = c.ok) \/ PrintT(<<"DIFF", c.p, c.u, Valid(c.p, c.u), c.ok>>)
====
