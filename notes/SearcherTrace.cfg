SPECIFICATION Spec
INVARIANT TilingInv
INVARIANT Report
CHECK_DEADLOCK FALSE
