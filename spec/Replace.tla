------------------------------- MODULE Replace -------------------------------
(***************************************************************************)
(* Replacement templates and splice-and-expand (C17).                      *)
(* A template is a sequence of code points scanned left to right:          *)
(*   $$        a dollar sign                                               *)
(*   $N        (N = the maximal run of decimal digits) the text of group   *)
(*             N: the whole match for 0, nothing if the group does not     *)
(*             exist or did not participate                                *)
(*   ${name}   the text of the participating group called name, nothing if *)
(*             there is none; an unclosed ${ is literal to the end         *)
(*   otherwise the character itself (a lone $ included).                   *)
(* A match is <<range, cap1, ..., capN>> with <<-1,-1>> for "did not       *)
(* participate"; names as in MatchAPI.                                     *)
(***************************************************************************)
EXTENDS MatchAPI

Dollar == 36
LBrace == 123
RBrace == 125
IsDigit(c) == c >= 48 /\ c <= 57

TextOf(h, r) == IF r = NoneR THEN <<>> ELSE SubSeq(h, r[1] + 1, r[2])

RECURSIVE DigitsEnd(_, _), DigitsVal(_, _, _), FindRBrace(_, _)
\* first index >= i that is not a digit
DigitsEnd(tpl, i) == IF i <= Len(tpl) /\ IsDigit(tpl[i]) THEN DigitsEnd(tpl, i + 1) ELSE i
DigitsVal(tpl, i, j) == IF i >= j THEN 0 ELSE DigitsVal(tpl, i, j - 1) * 10 + (tpl[j - 1] - 48)
FindRBrace(tpl, i) == IF i > Len(tpl) THEN 0 ELSE IF tpl[i] = RBrace THEN i ELSE FindRBrace(tpl, i + 1)

RECURSIVE Expand(_, _, _, _, _)
Expand(tpl, i, m, names, h) ==
  IF i > Len(tpl) THEN <<>>
  ELSE IF tpl[i] # Dollar THEN <<tpl[i]>> \o Expand(tpl, i + 1, m, names, h)
  ELSE IF i = Len(tpl) THEN <<Dollar>>
  ELSE LET c == tpl[i + 1]
           caps == Tail(m)
       IN CASE c = Dollar -> <<Dollar>> \o Expand(tpl, i + 2, m, names, h)
            [] IsDigit(c) ->
                 LET j == DigitsEnd(tpl, i + 1)
                     n == DigitsVal(tpl, i + 1, j)
                 IN TextOf(h, Group(m[1], caps, n)) \o Expand(tpl, j, m, names, h)
            [] c = LBrace ->
                 LET k == FindRBrace(tpl, i + 2) IN
                 IF k = 0 THEN SubSeq(tpl, i, Len(tpl))
                 ELSE TextOf(h, NamedGroup(caps, names, SubSeq(tpl, i + 2, k - 1)))
                        \o Expand(tpl, k + 1, m, names, h)
            [] OTHER -> <<Dollar>> \o Expand(tpl, i + 1, m, names, h)

Expansion(tpl, m, names, h) == Expand(tpl, 1, m, names, h)

RECURSIVE Splice(_, _, _, _, _)
\* Replace each match ms[k] (in order, non-overlapping) by texts[k]; last = end of the previous one.
Splice(h, ms, texts, k, last) ==
  IF k > Len(ms) THEN SubSeq(h, last + 1, Len(h))
  ELSE SubSeq(h, last + 1, ms[k][1][1]) \o texts[k] \o Splice(h, ms, texts, k + 1, ms[k][1][2])

ReplaceAllBy(h, ms, texts) == Splice(h, ms, texts, 1, 0)
ReplaceFirstBy(h, ms, texts) == IF ms = <<>> THEN h ELSE Splice(h, <<ms[1]>>, <<texts[1]>>, 1, 0)

RegexReplaceAll(h, ms, tpl, names) == ReplaceAllBy(h, ms, [k \in DOMAIN ms |-> Expansion(tpl, ms[k], names, h)])
RegexReplaceFirst(h, ms, tpl, names) == ReplaceFirstBy(h, ms, [k \in DOMAIN ms |-> Expansion(tpl, ms[k], names, h)])
=============================================================================
