---------------------------- MODULE MCSharedRegex ----------------------------
(* TLC configurations of SharedRegex: small thread/query sets; every complete interleaving is
   printed (one JSON line) so that the runner can impose it on real threads. *)
EXTENDS SharedRegex, Json

\* 2 threads, one query of 3 steps each (5 actions per thread: Begin, 3 Steps, End)
T2 == {1, 2}
Queue2 == [t \in T2 |-> <<t>>]
Steps2 == [q \in {1, 2} |-> 3]
\* 3 threads, one query of 1 step each (3 actions per thread)
T3 == {1, 2, 3}
Queue3 == [t \in T3 |-> <<t>>]
Steps3 == [q \in {1, 2, 3} |-> 1]
\* 2 threads, two queries each (history independence under interleaving)
Queue22 == [t \in T2 |-> IF t = 1 THEN <<1, 2>> ELSE <<2, 1>>]
Steps22 == [q \in {1, 2} |-> 1]

EmitSchedule == AllDone => PrintT("J " \o ToJson([kind |-> "schedule", threads |-> Cardinality(Threads), sched |-> sched]))
=============================================================================
