------------------------------- MODULE Compile -------------------------------
(***************************************************************************)
(* The compiler's un-optimized pipeline (parser lowering + src/emit.rs) as *)
(* a function from pattern trees to instruction sequences, at the level of *)
(* the program's *skeleton*: every control-flow instruction with all its   *)
(* fields (jump targets, loop bounds and exits, group numbers, look-around *)
(* extents and continuations, anchors' and boundaries' flags), every       *)
(* single-character matcher collapsed to "scm" (their character data is    *)
(* decided by C10/C12).  TLC checks Skeleton(dumped no_opt program) =      *)
(* Compile(ast) for every enumerated pattern (JudgeCompile.tla), which     *)
(* binds the emitter structurally, not only through the matches it         *)
(* produces: fix-ups of forward references, the order of emission inside   *)
(* look-behinds, loop numbering, per-iteration capture resets.             *)
(*                                                                         *)
(* Addresses are 0-based as in the dump.  env = [i, m, u, behind].         *)
(***************************************************************************)
EXTENDS RegexAST, ESSem

Scm == [op |-> "scm"]
IsScmOp(op) == op \in {"Char", "CharSet", "Bracket", "ByteSet", "ByteSeq", "MatchAny", "MatchAnyExceptLT"}

SortedSeq(S) == SetToSortSeq(S, <)

ModEnv(n, env) ==
  LET on(f, cur) == IF \E k \in DOMAIN n.add : n.add[k] = f THEN TRUE
                    ELSE IF \E k \in DOMAIN n.rem : n.rem[k] = f THEN FALSE ELSE cur
  IN [env EXCEPT !.i = on("i", env.i), !.m = on("m", env.m)]

RECURSIVE Emit(_, _, _, _), EmitSeq(_, _, _, _, _), EmitAlt(_, _, _, _), EmitRefs(_, _, _, _)

\* Result: [code |-> sequence of instructions, loops |-> number of loop ids consumed]
R0 == [code |-> <<>>, loops |-> 0]
One(insn) == [code |-> <<insn>>, loops |-> 0]

\* the children of a concatenation, left to right (right to left inside a look-behind)
EmitSeq(xs, k, env, base, lid) ==
  IF k > Len(xs) THEN R0
  ELSE LET a == Emit(xs[k], env, base, lid)
           b == EmitSeq(xs, k + 1, env, base + Len(a.code), lid + a.loops)
       IN [code |-> a.code \o b.code, loops |-> a.loops + b.loops]

\* a disjunction is a balanced tree of two-way alternations (parse.rs make_alt)
EmitAlt(xs, env, base, lid) ==
  IF Len(xs) = 1 THEN Emit(xs[1], env, base, lid)
  ELSE LET h == Len(xs) \div 2
           l == EmitAlt(SubSeq(xs, 1, h), env, base + 1, lid)
           rbase == base + 1 + Len(l.code) + 1
           r == EmitAlt(SubSeq(xs, h + 1, Len(xs)), env, rbase, lid + l.loops)
       IN [code |-> <<[op |-> "Alt", secondary |-> rbase]>> \o l.code
                    \o <<[op |-> "Jump", target |-> rbase + Len(r.code)]>> \o r.code,
           loops |-> l.loops + r.loops]

\* \k<name> for a duplicated name: a right-leaning chain of alternations of backreferences
EmitRefs(ids, k, env, base) ==
  LET ref == [op |-> "BackRef", g |-> ids[k], icase |-> env.i] IN
  IF k = Len(ids) THEN <<ref>>
  ELSE LET rest == EmitRefs(ids, k + 1, env, base + 3)
       IN <<[op |-> "Alt", secondary |-> base + 3], ref, [op |-> "Jump", target |-> base + 3 + Len(rest)]>> \o rest

Emit(n, env, base, lid) ==
  CASE n.t = "empty" -> R0
    [] n.t \in {"chr", "dot", "esc", "cls", "prop"} -> One(Scm)
    [] n.t = "bol" -> One([op |-> "StartOfLine", multiline |-> env.m])
    [] n.t = "eol" -> One([op |-> "EndOfLine", multiline |-> env.m])
    [] n.t = "wb" -> One([op |-> "WordBoundary", invert |-> n.neg, uicase |-> env.u /\ env.i])
    [] n.t = "bref" -> One([op |-> "BackRef", g |-> n.n - 1, icase |-> env.i])
    [] n.t = "kref" -> [code |-> EmitRefs(n.ids, 1, env, base), loops |-> 0]
    [] n.t = "cat" -> EmitSeq(IF env.behind THEN Reverse(n.xs) ELSE n.xs, 1, env, base, lid)
    [] n.t = "alt" -> EmitAlt(n.xs, env, base, lid)
    [] n.t = "ncg" -> Emit(n.b, env, base, lid)
    [] n.t = "mod" -> Emit(n.b, ModEnv(n, env), base, lid)
    [] n.t = "grp" ->
         LET b == Emit(n.b, env, base + 1, lid)
         IN [code |-> <<[op |-> "BeginCG", g |-> n.id]>> \o b.code \o <<[op |-> "EndCG", g |-> n.id]>>, loops |-> b.loops]
    [] n.t = "rep" ->
         LET gs == SortedSeq(GroupsIn(n.b))
             b == Emit(n.b, env, base + 1 + Len(gs), lid + 1)
             exit == base + 1 + Len(gs) + Len(b.code) + 1
         IN [code |-> <<[op |-> "EnterLoop", id |-> lid, min |-> n.min, max |-> n.max, greedy |-> n.greedy, exit |-> exit]>>
                      \o [k \in DOMAIN gs |-> [op |-> "ResetCG", g |-> gs[k]]]
                      \o b.code \o <<[op |-> "LoopAgain", begin |-> base]>>,
             loops |-> 1 + b.loops]
    [] n.t = "look" ->
         LET gs == SortedSeq(GroupsIn(n.b))
             b == Emit(n.b, [env EXCEPT !.behind = n.behind], base + 1, lid)
         IN [code |-> <<[op |-> "Look", behind |-> n.behind, negate |-> n.neg,
                         sg |-> IF gs = <<>> THEN 0 ELSE gs[1], eg |-> IF gs = <<>> THEN 0 ELSE gs[Len(gs)] + 1,
                         cont |-> base + 1 + Len(b.code) + 1]>> \o b.code \o <<[op |-> "Goal"]>>,
             loops |-> b.loops]

\* The whole program of a pattern under a flag record.
Compile(ast, fl) ==
  LET r == Emit(ast, [i |-> fl.i, m |-> fl.m, u |-> fl.u \/ fl.v, behind |-> FALSE], 0, 0)
  IN [code |-> r.code \o <<[op |-> "Goal"]>>, loops |-> r.loops]

(***************************************************************************)
(* The skeleton of a dumped program.                                       *)
(***************************************************************************)
SkelInsn(x) ==
  CASE IsScmOp(x.op) -> Scm
    [] x.op = "Look" -> IF x.sg = x.eg THEN [x EXCEPT !.sg = 0, !.eg = 0] ELSE x
    [] OTHER -> x
Skeleton(P) == [k \in DOMAIN P.insns |-> SkelInsn(P.insns[k])]

\* patterns whose lowering is one instruction per leaf (no string sets, no JustFail for empty classes)
RECURSIVE Plain(_)
Plain(n) ==
  CASE n.t = "vcls" -> FALSE
    [] n.t = "cls" -> TRUE
    [] n.t \in {"grp", "ncg", "rep", "look", "mod"} -> Plain(n.b)
    [] n.t \in {"cat", "alt"} -> \A k \in DOMAIN n.xs : Plain(n.xs[k])
    [] OTHER -> TRUE
=============================================================================
