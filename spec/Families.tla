------------------------------ MODULE Families ------------------------------
(***************************************************************************)
(* The pattern families the checks enumerate exhaustively.  A family is a  *)
(* set of records [ast, fl] together with the haystacks it is run on.      *)
(* TIER scales the families: "quick" for every change, "thorough" deep.    *)
(***************************************************************************)
EXTENDS RegexAST, ClassSet, TLC

CONSTANT TIER

Thorough == TIER = "thorough"

ca == 97   cb == 98   cc == 99   cx == 120  cs == 115  cS == 83  ck == 107  cK == 75
cLongS == 383   cKelvin == 8490   cMicro == 181   cMu == 956   cMU == 924
cEacute == 233  cEACUTE == 201  cEuro == 8364  cGrin == 128512  cNL == 10  cSP == 32
cSigma == 963  cFinalSigma == 962  cSIGMA == 931  cSharpS == 223  cSHARPS == 7838
cDeseretL == 66600  cDeseretU == 66560  cHiSurr == 55296  cLoSurr == 56320  c0 == 48  c1 == 49
cUnderscore == 95  cDash == 45  cLS == 8232  cCR == 13

A == Chr(ca)
B == Chr(cb)
Str(a, b) == <<a, b>>

\* quantifiers as <<min, max, greedy>>; max = -1 is infinity
QCore == { <<0, -1, TRUE>>, <<1, -1, TRUE>>, <<0, 1, TRUE>>,
           <<0, -1, FALSE>>, <<1, -1, FALSE>>, <<0, 1, FALSE>>,
           <<1, 1, TRUE>>, <<2, 2, TRUE>>, <<1, 2, FALSE>>, <<0, 2, TRUE>> }
QMore == { <<0, 0, TRUE>>, <<2, -1, TRUE>>, <<2, 3, FALSE>>, <<1, 2, TRUE>>, <<0, 2, FALSE>>,
           <<2, -1, FALSE>>, <<3, 3, TRUE>>, <<1, 3, TRUE>>, <<6, 6, TRUE>>, <<5, 6, FALSE>> }
QAll == QCore \cup QMore
QSmall == { <<0, -1, TRUE>>, <<1, -1, FALSE>>, <<0, 1, TRUE>>, <<1, 1, TRUE>>, <<2, 2, TRUE>>,
            <<0, 2, FALSE>>, <<1, 2, TRUE>>, <<0, -1, FALSE>> }

Q1 == IF Thorough THEN QAll ELSE QCore
Q2 == IF Thorough THEN QCore \cup {<<2, -1, TRUE>>, <<2, 3, FALSE>>, <<0, 0, TRUE>>} ELSE QSmall

With(S, fl) == {[ast |-> n, fl |-> fl] : n \in S}

(***************************************************************************)
(* F1: atom x quantifier                                                   *)
(***************************************************************************)
F1Atoms == { A, Dot, Cls(FALSE, <<IC(ca), IC(cb)>>), Cls(TRUE, <<IC(ca)>>), Cls(FALSE, <<>>),
             Cls(TRUE, <<>>), Esc("w"), Esc("W"), Esc("d"), Cls(FALSE, <<IR(ca, cb), IE("d")>>),
             Chr(cEacute), Cls(FALSE, <<IC(cEacute), IC(cGrin)>>) }
F1Shapes(at, q) ==
  { Quant(at, q), Cat(<<Quant(at, q), B>>), Cat(<<A, Quant(at, q)>>), Grp(Quant(at, q)),
    Quant(Grp(at), q), Cat(<<Quant(at, q), Quant(at, q)>>), Cat(<<Quant(at, q), A, B>>) }
F1 == With(UNION {F1Shapes(at, q) : at \in F1Atoms, q \in Q1}, NoFlags)
F1Hay == [alpha |-> {ca, cb, c1, cEacute}, maxlen |-> IF Thorough THEN 4 ELSE 3]

(***************************************************************************)
(* F2: nested quantifiers                                                  *)
(***************************************************************************)
F2Bodies == { A, Opt(A), Grp(A), Opt(Grp(A)), Grp(Alt(<<A, Empty>>)), Grp(Alt(<<Empty, A>>)),
              Ncg(Empty), Look(A, FALSE, FALSE), Look(A, FALSE, TRUE), Bol, Wb(FALSE),
              LazyStar(A), Cat(<<Grp(A), BRef(1)>>), Cat(<<Opt(A), Opt(B)>>),
              Alt(<<A, Cat(<<A, B>>)>>), Look(B, TRUE, FALSE) }
F2Sfx == { Empty, A, B }
F2Fwd == { Cat(<<Quant(Ncg(Quant(bd, q2)), q1), sf>>) :
             bd \in F2Bodies, q2 \in Q2, q1 \in Q2, sf \in F2Sfx }
F2Three == { Cat(<<Quant(Ncg(Quant(Ncg(Quant(bd, q3)), q2)), q1), B>>) :
               bd \in {A, Opt(A), Grp(Alt(<<A, Empty>>))},
               q3 \in {<<0, 1, TRUE>>, <<0, -1, FALSE>>, <<1, 1, TRUE>>},
               q2 \in {<<1, 1, TRUE>>, <<2, 2, TRUE>>, <<0, -1, TRUE>>, <<0, 2, FALSE>>},
               q1 \in {<<2, 2, TRUE>>, <<0, -1, TRUE>>, <<1, -1, FALSE>>, <<1, 2, TRUE>>} }
F2Behind == { Cat(<<Look(Quant(Ncg(Quant(bd, q2)), q1), TRUE, FALSE), sf>>) :
                bd \in {A, Opt(A), Grp(A), Grp(Alt(<<A, Empty>>)), Ncg(Empty), LazyStar(A)},
                q2 \in QSmall, q1 \in QSmall, sf \in {Empty, B} }
F2 == With(F2Fwd \cup F2Three \cup F2Behind, NoFlags)
\* F2x: lazy counted loops over nullable bodies inside loops; loops whose body holds a look-around that
\* itself holds a loop (the look-around's sub-match shares the loop registers) next to a nullable tail
F2xLazy == { Cat(<<Quant(Ncg(Quant(bd, q2)), q1), sf>>) :
               bd \in {Opt(A), Grp(Alt(<<A, Empty>>)), LazyStar(A), Ncg(Empty)},
               q2 \in {<<1, 1, FALSE>>, <<2, 2, FALSE>>, <<0, 1, FALSE>>, <<1, 2, FALSE>>},
               q1 \in QSmall, sf \in {B, Empty} }
F2xLook == { Cat(<<Quant(Ncg(Cat(<<Look(Quant(x, qi), bh, FALSE), y>>)), q1), sf>>) :
               x \in {A, Ncg(Cat(<<A, B>>)), Dot}, qi \in {<<0, -1, TRUE>>, <<1, -1, TRUE>>, <<0, 2, FALSE>>},
               bh \in BOOLEAN, y \in {Opt(A), Empty, LazyStar(A)},
               q1 \in {<<0, -1, TRUE>>, <<1, -1, FALSE>>, <<2, 2, TRUE>>, <<0, 2, FALSE>>}, sf \in {B, Chr(cc)} }
F2x == With(F2xLazy \cup F2xLook, NoFlags)
F2Hay == [alpha |-> {ca, cb}, maxlen |-> IF Thorough THEN 5 ELSE 4]

(***************************************************************************)
(* F3: captures and backreferences                                         *)
(***************************************************************************)
F3Bodies == { A, Alt(<<A, B>>), Star(A), Opt(A), Rep(A, 1, 2, FALSE), Alt(<<A, Empty>>),
              Cat(<<A, Opt(BRef(1))>>), Cat(<<Rep(A, 1, 2, FALSE), Opt(BRef(1))>>),
              Cat(<<Opt(BRef(1)), A>>), Alt(<<Cat(<<A, B>>), A>>), Dot,
              Cat(<<Rep(Dot, 1, 2, TRUE), Star(BRef(1))>>) }
F3Sfx == { Empty, BRef(1), B, Cat(<<BRef(1), B>>), Cat(<<B, BRef(1)>>), Star(BRef(1)),
           Cat(<<Rep(BRef(1), 1, 3, TRUE), Cls(TRUE, <<IC(cb)>>)>>) }
F3Q == { <<1, 1, TRUE>>, <<0, -1, TRUE>>, <<1, -1, TRUE>>, <<0, 1, TRUE>>, <<0, -1, FALSE>>,
         <<1, 2, FALSE>>, <<2, 2, TRUE>>, <<0, 2, TRUE>> }
F3a == { Cat(<<Quant(Grp(bd), q), sf>>) : bd \in F3Bodies, q \in F3Q, sf \in F3Sfx }
F3Pair == { <<A, B>>, <<A, Empty>>, <<Empty, A>>, <<Star(A), B>>, <<A, Cat(<<A, B>>)>> }
F3b == { Cat(<<Quant(Ncg(Alt(<<Grp(p[1]), Grp(p[2])>>)), q), sf>>) :
           p \in F3Pair, q \in F3Q, sf \in {Empty, BRef(1), BRef(2), Cat(<<BRef(2), BRef(1)>>), B} }
F3c == { Cat(<<BRef(1), Grp(A)>>), Cat(<<Grp(Cat(<<A, BRef(2)>>)), Grp(B)>>),
         Cat(<<Grp(Alt(<<A, Cat(<<A, B>>)>>)), Grp(Alt(<<Chr(cc), Cat(<<B, Chr(cc)>>)>>))>>),
         Cat(<<Grp(A), Star(Grp(Cat(<<Opt(Grp(Plus(A))), Opt(Grp(Plus(B))), Grp(Chr(cc))>>)))>>),
         Star(Grp(Alt(<<Cat(<<A, Grp(B)>>), Grp(A)>>))),
         Cat(<<Star(Ncg(Alt(<<Grp(A), B>>))), BRef(1)>>),
         Plus(Grp(Cat(<<Opt(Grp(A)), B>>))),
         \* a group under a mandatory loop under an optional one under a loop: the outer loop must reset it
         \* when the optional part is skipped
         Plus(Ncg(Cat(<<Opt(Ncg(Plus(Grp(A)))), B>>))), Star(Ncg(Cat(<<Star(Ncg(Rep(Grp(A), 1, 2, TRUE))), B>>))),
         Rep(Ncg(Cat(<<Opt(Ncg(Cat(<<Chr(cc), Plus(Grp(A))>>))), B>>)), 2, 2, TRUE),
         Cat(<<Look(Plus(Ncg(Cat(<<Opt(Ncg(Cat(<<Plus(Grp(A)), Chr(cc)>>))), B>>))), TRUE, FALSE), Chr(cc)>>),
         Cat(<<Alt(<<Grp(Dot), Rep(BRef(1), 1, 3, TRUE)>>), Cls(TRUE, <<IC(cs)>>)>>),
         Cat(<<Grp(Cat(<<Rep(A, 1, 2, FALSE), Opt(BRef(1))>>)), Chr(cc)>>) }
F3 == With(F3a \cup F3b \cup F3c, NoFlags) \cup With(F3c, Flags(TRUE, FALSE, FALSE, FALSE, FALSE))
F3Hay == [alpha |-> {ca, cb, cc}, maxlen |-> IF Thorough THEN 4 ELSE 3]

(***************************************************************************)
(* F4: look-arounds                                                        *)
(***************************************************************************)
F4Bodies == { A, Star(A), Grp(A), Grp(Star(A)), Alt(<<Grp(A), B>>), Cat(<<A, B>>),
              Cat(<<Grp(A), BRef(1)>>), Cat(<<Grp(Dot), Grp(Dot)>>), Alt(<<Cat(<<A, B>>), A>>),
              Look(A, FALSE, FALSE), Look(Grp(A), TRUE, FALSE), Cat(<<Grp(Opt(A)), B>>),
              Cat(<<Star(Dot), Grp(A)>>), Cat(<<Grp(A), Star(Dot)>>), LazyStar(Grp(A)),
              Cat(<<BRef(1), A>>), Empty, Bol }
F4Pre == { Empty, A, Star(Dot), Grp(A) }
F4Post == { Empty, A, B, BRef(1), Star(Dot), Cat(<<BRef(1), B>>) }
F4Kinds == { <<FALSE, FALSE>>, <<FALSE, TRUE>>, <<TRUE, FALSE>>, <<TRUE, TRUE>> }
F4 == With({ Cat(<<pre, Look(bd, k[1], k[2]), post>>) :
               pre \in F4Pre, bd \in F4Bodies, k \in F4Kinds, post \in F4Post }, NoFlags)
F4Hay == [alpha |-> {ca, cb}, maxlen |-> IF Thorough THEN 5 ELSE 4]

(***************************************************************************)
(* F4b: look-arounds nested in look-arounds, both with capture groups,     *)
(* where the outer one's captures must be discarded (it is negative, or    *)
(* the match backtracks past it and completes through another alternative).*)
(***************************************************************************)
F4bBodies == { Cat(<<Grp(A), Look(Grp(B), FALSE, FALSE)>>), Cat(<<Grp(Dot), Look(Grp(Dot), FALSE, FALSE)>>),
               Cat(<<Look(Grp(A), TRUE, FALSE), Grp(B)>>), Cat(<<Grp(A), Look(Cat(<<Grp(B), Look(Grp(Dot), FALSE, FALSE)>>), FALSE, FALSE)>>),
               Cat(<<Grp(A), Look(B, FALSE, FALSE)>>), Grp(Cat(<<A, Look(Grp(B), FALSE, TRUE)>>)),
               Cat(<<Look(Grp(Dot), TRUE, FALSE), Look(Grp(Dot), FALSE, FALSE), Grp(Dot)>>),
               \* a nested assertion with a group next to a sibling group (inside a look-behind the two are emitted
               \* right to left, so the nested assertion's group range is not "the groups emitted so far")
               Cat(<<Look(Cat(<<Grp(B), A>>), FALSE, TRUE), Grp(B)>>),
               Alt(<<Cat(<<Look(Cat(<<Grp(B), A>>), FALSE, TRUE), Grp(B)>>), B>>),
               Alt(<<Cat(<<Look(Grp(A), TRUE, TRUE), Grp(B)>>), A>>) }
F4bPats == { Alt(<<Cat(<<pre, Look(bd, k[1], k[2]), post>>), alt2>>) :
               pre \in {Empty, Dot}, bd \in F4bBodies, k \in F4Kinds, post \in {Chr(cx), A, Dot},
               alt2 \in {Cat(<<A, B>>), Rep(Dot, 2, 2, TRUE), Dot} }
F4b == With(F4bPats, NoFlags)
F4bHay == [alpha |-> {ca, cb}, maxlen |-> 3]

(***************************************************************************)
(* F5: anchors, boundaries, dot, flags and modifier groups                 *)
(***************************************************************************)
F5Atoms == { Bol, Eol, Wb(FALSE), Wb(TRUE), Dot, A, Chr(cNL), Star(Dot), Opt(A),
             Mod(<<"m">>, <<>>, Bol), Mod(<<>>, <<"m">>, Bol), Mod(<<"m">>, <<>>, Eol),
             Mod(<<>>, <<"m">>, Eol), Mod(<<"s">>, <<>>, Dot), Mod(<<>>, <<"s">>, Dot),
             Mod(<<"s">>, <<"m">>, Cat(<<Dot, Eol>>)), Grp(Bol), Alt(<<Bol, A>>),
             Alt(<<Cat(<<Bol, A>>), Cat(<<Bol, Chr(cSP)>>)>>) }
F5Flags == { NoFlags, Flags(FALSE, TRUE, FALSE, FALSE, FALSE), Flags(FALSE, FALSE, TRUE, FALSE, FALSE),
             Flags(FALSE, TRUE, TRUE, TRUE, FALSE) }
F5Pats == {Cat(<<x, y>>) : x \in F5Atoms, y \in F5Atoms}
            \cup {Cat(<<x, y, z>>) : x \in {Bol, Wb(FALSE), Star(Dot), A}, y \in F5Atoms, z \in {Eol, Wb(TRUE), A, Dot}}
F5 == UNION {With(F5Pats, fl) : fl \in F5Flags}
\* (U+000B is not a line terminator although it sits between U+000A and U+000D)
F5Hay == [alpha |-> {ca, cNL, cSP, 11} \cup (IF Thorough THEN {cLS, cCR, 12} ELSE {}), maxlen |-> IF Thorough THEN 4 ELSE 3]

(***************************************************************************)
(* F6: case-insensitivity over the fold classes of the alphabet            *)
(***************************************************************************)
F6Chars == { cs, cS, cLongS, ck, cK, cKelvin, cMicro, cMu, cMU, cEacute, cEACUTE, ca, c1 }
F6Atoms(c) == { Chr(c), Cls(FALSE, <<IC(c)>>), Cls(TRUE, <<IC(c)>>), Cls(FALSE, <<IR(c, c)>>),
                Cat(<<Grp(Dot), BRef(1)>>), Cat(<<Grp(Chr(c)), BRef(1)>>),
                Cls(TRUE, <<IC(c), IC(c1)>>) }
F6Fixed == { Esc("w"), Esc("W"), Cat(<<Wb(FALSE), Dot>>), Cat(<<Dot, Wb(TRUE)>>),
             Cls(FALSE, <<IR(ca, 122)>>), Cls(TRUE, <<IR(ca, 122)>>), Cls(FALSE, <<IR(65, 90)>>),
             Cls(FALSE, <<IE("w")>>), Cls(TRUE, <<IE("w")>>), Cls(FALSE, <<IE("W")>>),
             Cls(TRUE, <<IE("W")>>), Star(Esc("w")), Cat(<<Grp(Esc("w")), Star(BRef(1))>>),
             Mod(<<"i">>, <<>>, Chr(cs)), Cat(<<Mod(<<>>, <<"i">>, Chr(cs)), Chr(ck)>>),
             \* a backreference compared case-insensitively by a local modifier only (the executor folds with
             \* the regex-wide unicode bit, not the ignoreCase bit)
             Cat(<<Grp(Dot), Mod(<<"i">>, <<>>, BRef(1))>>), Cat(<<Grp(Dot), Mod(<<>>, <<"i">>, BRef(1))>>),
             \* boundaries and class escapes inside quantified groups (the optimizer copies loop bodies)
             Plus(Ncg(Cat(<<Wb(FALSE), Dot>>))), Rep(Ncg(Cat(<<Dot, Wb(TRUE)>>)), 2, 2, TRUE),
             Cat(<<Bol, Rep(Ncg(Cat(<<Wb(FALSE), Esc("w"), Wb(FALSE), Esc("W")>>)), 1, 2, TRUE), Eol>>),
             Rep(Ncg(Cat(<<Wb(FALSE), Chr(cDash)>>)), 1, 3, FALSE), Rep(Ncg(Alt(<<Esc("W"), Cat(<<Wb(TRUE), Chr(cs)>>)>>)), 2, 3, TRUE) }
F6Pats == UNION {F6Atoms(c) : c \in F6Chars} \cup F6Fixed
F6Flags == { Flags(TRUE, FALSE, FALSE, FALSE, FALSE), Flags(TRUE, FALSE, FALSE, TRUE, FALSE),
             Flags(TRUE, FALSE, FALSE, FALSE, TRUE), NoFlags }
F6 == UNION {With(F6Pats, fl) : fl \in F6Flags}
\* (U+0000 is there because unused slots of a small character set must not match anything)
F6Hay == [alpha |-> F6Chars \cup {cSP, 0, cDash}, maxlen |-> 2]

(***************************************************************************)
(* F7: literal runs (byte-sequence lowering, chunking at 16 bytes, both    *)
(* directions), with characters of every UTF-8 length                      *)
(***************************************************************************)
F7Cycle == <<ca, cEacute, cEuro, cGrin, cb>>
F7Lit(n, off) == [k \in 1..n |-> F7Cycle[((k + off - 1) % 5) + 1]]
F7Lens == IF Thorough THEN 1..24 ELSE {1, 2, 3, 5, 6, 7, 11, 12, 13}
F7Lits == {F7Lit(n, off) : n \in F7Lens, off \in 0..(IF Thorough THEN 4 ELSE 1)}
LitNode(s) == Cat([k \in DOMAIN s |-> Chr(s[k])])
F7Pats(s) == { LitNode(s), Cat(<<Look(LitNode(s), TRUE, FALSE), Eol>>),
               Cat(<<Look(LitNode(s), TRUE, TRUE), Eol>>), Cat(<<Grp(LitNode(s)), BRef(1)>>),
               Cat(<<LitNode(s), Star(Chr(s[1]))>>), Alt(<<LitNode(s), LitNode(Tail(s) \o <<cx>>)>>),
               \* a look-behind *before* the literal, and a look-ahead nested in a look-behind before it
               Cat(<<Look(Chr(cx), TRUE, FALSE), LitNode(s)>>), Cat(<<Look(Chr(cx), TRUE, TRUE), LitNode(s)>>),
               Cat(<<Look(Cat(<<Look(Chr(s[1]), FALSE, FALSE), LitNode(s)>>), TRUE, FALSE), Eol>>),
               Cat(<<Look(Chr(s[1]), FALSE, FALSE), LitNode(s), Look(Chr(s[Len(s)]), TRUE, FALSE)>>) }
\* haystacks are built from the literal itself
F7HaysOf(s) == { s, s \o s, SubSeq(s, 1, Len(s) - 1), <<cx>> \o s, s \o <<cx>>, Tail(s) \o <<cx>>,
                 <<cGrin>> \o s \o <<cEuro>>, <<>>, [k \in DOMAIN s |-> IF k = Len(s) THEN cx ELSE s[k]],
                 [k \in DOMAIN s |-> IF k = 1 THEN cx ELSE s[k]] \o s }
F7 == UNION { {[ast |-> n, fl |-> fl, hays |-> F7HaysOf(s)] : n \in F7Pats(s),
                 fl \in {NoFlags, UFlags, Flags(TRUE, FALSE, FALSE, TRUE, FALSE)}} : s \in F7Lits }

(***************************************************************************)
(* F8: shapes that decide the start predicate                              *)
(***************************************************************************)
Lit2(x, y) == Cat(<<Chr(x), Chr(y)>>)
F8First == { A, Lit2(ca, cb), Lit2(ca, cc), Chr(cEacute), Chr(cEuro), Chr(cGrin), Chr(ck),
             Cls(FALSE, <<IC(ca), IC(cEacute)>>), Cls(TRUE, <<IC(ca)>>), Cls(FALSE, <<>>),
             Cls(FALSE, <<IR(cEacute, cEuro)>>), Opt(A), Plus(A), Rep(Lit2(ca, cb), 1, 2, TRUE),
             Look(A, FALSE, FALSE), Look(B, FALSE, TRUE), Look(A, TRUE, FALSE), Bol, Grp(A), Grp(Bol),
             Empty, Dot, Wb(FALSE), Mod(<<"m">>, <<>>, Bol), Mod(<<"i">>, <<>>, Chr(ck)),
             Cat(<<Look(A, FALSE, FALSE), Chr(ca)>>), Star(Cls(TRUE, <<IC(ca)>>)), Chr(cHiSurr),
             \* loops that survive the optimizer (capture inside, or minimum above the unroll threshold)
             Rep(Grp(Cat(<<A, Opt(B)>>)), 2, 2, TRUE), Rep(Grp(Alt(<<Lit2(ca, cb), Lit2(ca, cc)>>)), 2, 3, TRUE),
             Rep(Ncg(Cat(<<A, Opt(B)>>)), 6, 7, TRUE), Rep(Grp(Lit2(ca, cb)), 1, 2, FALSE),
             \* optional loops whose body is anchored
             Opt(Ncg(Cat(<<Bol, A>>))), Star(Grp(Bol)), Opt(Grp(Cat(<<Bol, Chr(cEacute)>>))), Plus(Ncg(Cat(<<Bol, A>>))) }
F8Small == { A, Lit2(ca, cb), Chr(cEacute), Cls(TRUE, <<IC(ca)>>), Opt(A), Look(A, TRUE, FALSE), Look(B, FALSE, TRUE),
             Bol, Empty, Grp(Bol), Chr(ck), Rep(Grp(Cat(<<A, Opt(B)>>)), 2, 2, TRUE), Opt(Ncg(Cat(<<Bol, A>>))) }
F8Second == IF Thorough THEN F8First ELSE F8Small
F8Pats == {Alt(<<x, y>>) : x \in F8First, y \in F8Second} \cup {Alt(<<y, x>>) : x \in F8First, y \in F8Second}
            \cup {Cat(<<x, y>>) : x \in F8First, y \in {A, B, Empty, Eol}}
            \cup {Cat(<<Alt(<<x, y>>), B>>) : x \in {A, Bol, Lit2(ca, cb), Opt(A)}, y \in F8First}
            \cup {Cat(<<Alt(<<y, x>>), Chr(cc)>>) : x \in {Look(A, FALSE, FALSE), Look(B, TRUE, FALSE), Wb(FALSE), Empty}, y \in F8Small}
F8Flags == IF Thorough THEN { NoFlags, Flags(TRUE, FALSE, FALSE, TRUE, FALSE), Flags(FALSE, TRUE, FALSE, FALSE, FALSE) }
           ELSE { NoFlags, Flags(TRUE, TRUE, FALSE, TRUE, FALSE) }
F8 == UNION {With(F8Pats, fl) : fl \in F8Flags}
\* (U+0000: unused slots of a small character set must not match anything)
F8Hay == [alpha |-> {ca, cb, cc, cEacute, 0} \cup (IF Thorough THEN {cGrin, cKelvin, cNL, cK} ELSE {}),
          maxlen |-> 3]

(***************************************************************************)
(* F8m: literal alternatives that diverge inside a multi-byte character    *)
(* (same lead byte, different continuation bytes), and string sets first   *)
(* under v / iv: the literal prefix and the first-byte set must stay       *)
(* sound.                                                                  *)
(***************************************************************************)
cEgrave == 232   cKip == 8365
F8mLits == { Chr(cEacute), Chr(cEgrave), Lit2(ca, cEacute), Lit2(ca, cEgrave), Chr(cEuro), Chr(cKip), Lit2(cEacute, ca),
             Lit2(cEgrave, ca), A, Lit2(cEuro, cEacute), Lit2(cKip, cEacute) }
F8mPats == {Alt(<<x, y>>) : x \in F8mLits, y \in F8mLits} \cup {Cat(<<Ncg(Alt(<<x, y>>)), A>>) : x \in F8mLits, y \in F8mLits}
             \cup {Alt(<<x, y, z>>) : x \in {Chr(cEacute), Chr(cEuro)}, y \in {Chr(cEgrave), Chr(cKip)}, z \in {A, Chr(cEacute)}}
F8mSets == { VCls(FALSE, SQ(<<Str(ca, cb), <<cc>>>>)), VCls(FALSE, SQ(<<Str(cK, ca), Str(cs, cs)>>)),
             Cat(<<VCls(FALSE, SQ(<<Str(ca, cb), Str(cx, cx)>>)), Opt(A)>>), Alt(<<VCls(FALSE, SQ(<<Str(ca, cb)>>)), Chr(cc)>>),
             VCls(FALSE, SU(<<SQ(<<Str(ca, cb)>>), SC(cEacute)>>)),
             \* string sets matched backwards
             Cat(<<Look(VCls(FALSE, SQ(<<Str(ca, cb)>>)), TRUE, FALSE), Chr(ck)>>),
             Cat(<<Look(VCls(FALSE, SQ(<<Str(ca, cb), <<ca, cb, ck>>>>)), TRUE, TRUE), Eol>>) }
F8m == With(F8mPats, NoFlags)
         \cup UNION {With(F8mSets, fl) : fl \in {Flags(FALSE, FALSE, FALSE, FALSE, TRUE), Flags(TRUE, FALSE, FALSE, FALSE, TRUE)}}
F8mHay == [alpha |-> {ca, cEacute, cEgrave, cEuro, cKip, 65, cb, ck}, maxlen |-> 2]

(***************************************************************************)
(* F9: counted loops around the optimizer's unroll threshold (5), on       *)
(* haystacks long enough to exceed the maximum                             *)
(***************************************************************************)
F9Atoms == { A, Cls(FALSE, <<IC(ca), IC(cb)>>), Dot, Grp(A), Ncg(Cat(<<A, Opt(B)>>)), Chr(cEacute) }
F9Q == { <<mn, mx, g>> : mn \in (IF Thorough THEN 3..8 ELSE {4, 5, 6, 7}),
                         mx \in {-1, 0, 1, 2}, g \in BOOLEAN }
F9Quant(at, q) == Rep(at, q[1], IF q[2] = -1 THEN -1 ELSE q[1] + q[2], q[3])
F9Pats == UNION { { Cat(<<F9Quant(at, q), B>>), Cat(<<Bol, F9Quant(at, q), Eol>>), Grp(F9Quant(at, q)),
                    Cat(<<Look(F9Quant(at, q), TRUE, FALSE), B>>), Cat(<<F9Quant(at, q), A>>) }
                  : at \in F9Atoms, q \in F9Q }
F9Run(c, n) == [k \in 1..n |-> c]
F9Hays == { F9Run(ca, n) : n \in 0..10 } \cup { F9Run(ca, n) \o <<cb>> : n \in 0..10 }
            \cup { F9Run(cEacute, n) \o <<cb>> : n \in 4..9 } \cup { F9Run(ca, n) \o <<cb, ca, ca>> : n \in 4..8 }
F9 == { [ast |-> n, fl |-> NoFlags, hays |-> F9Hays] : n \in F9Pats }

(***************************************************************************)
(* F1b: two different loops in a row (the second bounded)                  *)
(***************************************************************************)
F1bFirst == { Esc("w"), Cls(FALSE, <<IC(ca), IC(cb)>>), Dot, A }
F1bQ1 == { <<0, -1, FALSE>>, <<1, -1, FALSE>>, <<1, 2, FALSE>>, <<0, -1, TRUE>>, <<0, 1, FALSE>> }
F1bSecond == { B, Cls(FALSE, <<IC(cb), IC(cc)>>), Esc("w") }
F1bQ2 == { <<0, 2, TRUE>>, <<1, 2, TRUE>>, <<2, 3, FALSE>>, <<6, -1, TRUE>>, <<0, 1, TRUE>>, <<2, 2, TRUE>>, <<0, 2, FALSE>> }
F1b == With({ Cat(<<Quant(x, q1), Grp(Quant(y, q2)), Chr(cc)>>) :
                x \in F1bFirst, q1 \in F1bQ1, y \in F1bSecond, q2 \in F1bQ2 }
            \cup { Cat(<<Quant(x, q1), Quant(y, q2)>>) : x \in F1bFirst, q1 \in F1bQ1, y \in F1bSecond, q2 \in F1bQ2 }, NoFlags)
F1bHay == [alpha |-> {ca, cb, cc}, maxlen |-> IF Thorough THEN 6 ELSE 5]

(***************************************************************************)
(* F13: what distinguishes the ASCII entry points: case folding of bytes   *)
(* that differ in bit 5, word characters next to '_', non-ASCII pattern    *)
(* characters that can never match                                         *)
(***************************************************************************)
F13Pats == { Cat(<<Grp(Dot), BRef(1)>>), Cat(<<Look(Cat(<<Grp(Dot), BRef(1)>>), TRUE, FALSE), Eol>>),
             Cat(<<Wb(FALSE), Plus(Esc("w")), Wb(FALSE)>>), Cat(<<Dot, Wb(TRUE)>>), Cat(<<Wb(FALSE), Dot>>),
             Star(Esc("w")), Plus(Esc("W")), Cat(<<Star(Chr(cEacute)), Dot>>), Cat(<<LazyStar(Chr(cEuro)), Chr(95)>>),
             Cls(FALSE, <<IC(cKelvin), IC(95)>>), Cls(TRUE, <<IC(cLongS)>>), Chr(cs), Chr(ck), Chr(95), Chr(64),
             Cat(<<Opt(Chr(cHiSurr)), Dot>>), Cls(FALSE, <<IR(64, 96)>>), Cat(<<Grp(Cls(FALSE, <<IR(64, 96)>>)), Star(BRef(1))>>) }
F13Flags == { NoFlags, Flags(TRUE, FALSE, FALSE, FALSE, FALSE), Flags(TRUE, FALSE, FALSE, TRUE, FALSE), UFlags }
F13 == UNION {With(F13Pats, fl) : fl \in F13Flags}
F13Hay == [alpha |-> {ca, 65, 95, 64, 96, 91, 123, c1, 17, cSP, cs, cK, 0}, maxlen |-> 2]

(***************************************************************************)
(* F10: named and duplicate-named groups                                   *)
(***************************************************************************)
nA == <<110>>      \* "n"
nB == <<109>>      \* "m"
F10Pats ==
  { Cat(<<NGrp(nA, A), KRef(nA)>>), Cat(<<KRef(nA), NGrp(nA, A)>>),
    Alt(<<NGrp(nA, A), NGrp(nA, B)>>), Cat(<<Ncg(Alt(<<NGrp(nA, A), NGrp(nA, B)>>)), KRef(nA)>>),
    Star(Ncg(Alt(<<NGrp(nA, A), NGrp(nA, B)>>))),
    Cat(<<Star(Ncg(Alt(<<NGrp(nA, A), NGrp(nA, B)>>))), KRef(nA)>>),
    Cat(<<Grp(A), NGrp(nA, Opt(B)), NGrp(nB, Star(A))>>),
    Alt(<<Cat(<<Grp(A), NGrp(nA, B)>>), Cat(<<NGrp(nA, B), Grp(A)>>)>>),
    Cat(<<NGrp(nA, Opt(A)), NGrp(nB, Opt(B)), KRef(nB), KRef(nA)>>),
    Cat(<<Look(NGrp(nA, A), FALSE, FALSE), KRef(nA)>>),
    Cat(<<Look(NGrp(nA, A), TRUE, FALSE), KRef(nA)>>),
    Alt(<<Cat(<<NGrp(nA, A), Grp(B)>>), Cat(<<Grp(B), NGrp(nA, A)>>), NGrp(nB, Chr(cc))>>),
    Alt(<<NGrp(nA, A), Cat(<<NGrp(nB, B), Alt(<<NGrp(nA, Chr(cc)), Empty>>)>>)>>),
    Star(Alt(<<NGrp(nA, A), Cat(<<B, NGrp(nA, Opt(Chr(cc)))>>)>>)),
    \* one name in three alternatives
    Alt(<<NGrp(nA, A), NGrp(nA, B), NGrp(nA, Chr(cc))>>),
    Plus(Ncg(Alt(<<NGrp(nA, A), NGrp(nA, B), NGrp(nA, Chr(cc))>>))),
    Cat(<<Ncg(Alt(<<NGrp(nA, A), NGrp(nB, B), NGrp(nA, Chr(cc))>>)), Opt(KRef(nA))>>),
    \* several named groups inside one look-behind / look-ahead
    Cat(<<Look(Cat(<<NGrp(nA, A), NGrp(nB, B)>>), TRUE, FALSE), Chr(cc)>>),
    Cat(<<Look(Cat(<<NGrp(nA, Dot), Grp(Dot), NGrp(nB, Dot)>>), TRUE, FALSE), Eol>>),
    Cat(<<Look(Cat(<<NGrp(nA, A), NGrp(nB, B)>>), FALSE, FALSE), Dot>>),
    Cat(<<Grp(A), Look(Cat(<<NGrp(nB, Dot), NGrp(nA, Dot)>>), TRUE, FALSE)>>),
    \* named groups that never participate
    Cat(<<Look(NGrp(nA, A), FALSE, TRUE), NGrp(nB, Dot)>>),
    Cat(<<Rep(NGrp(nA, A), 0, 0, TRUE), NGrp(nB, Opt(B))>>),
    Alt(<<Cat(<<Cls(FALSE, <<>>), NGrp(nA, A)>>), NGrp(nB, B)>>) }
F10 == With(F10Pats, NoFlags) \cup With(F10Pats, UFlags)
F10Hay == [alpha |-> {ca, cb, cc}, maxlen |-> IF Thorough THEN 5 ELSE 4]

(***************************************************************************)
(* FC1: bracket expressions without v: every sequence of one or two items  *)
(* (characters of the s/k fold classes, ranges, class escapes and their    *)
(* negations, Unicode properties and their negations), negated or not,     *)
(* with and without i and u; several spellings of the same class.          *)
(* FC2: class sets (v): leaves, every binary union / intersection /        *)
(* subtraction of leaves, nested negations, and one more level of          *)
(* operators, with v and iv.                                               *)
(***************************************************************************)
FCItemsPlain == { IC(cs), IC(cS), IC(cLongS), IC(ck), IC(cKelvin), IR(ca, 122), IR(65, 90), IR(cLongS, cLongS),
                  IE("w"), IE("W"), IE("d"), IE("D"), IE("S"), IC(c1), IC(cUnderscore), IC(cDash), IR(c0, cs) }
FCItemsProp == { IP("Lu", FALSE), IP("Lu", TRUE), IP("Ll", FALSE), IP("Ll", TRUE) }
FCSeqs(I) == {<<x>> : x \in I} \cup {<<x, y>> : x \in I, y \in I}
FC1Legacy == UNION { With({Cls(neg, its) : its \in FCSeqs(FCItemsPlain), neg \in BOOLEAN}, fl)
                     : fl \in {NoFlags, Flags(TRUE, FALSE, FALSE, FALSE, FALSE)} }
FC1Uni == UNION { With({Cls(neg, its) : its \in FCSeqs(FCItemsPlain \cup FCItemsProp), neg \in BOOLEAN}
                       \cup {Prop(nm, ng) : nm \in {"Lu", "Ll"}, ng \in BOOLEAN}, fl)
                  : fl \in {UFlags, Flags(TRUE, FALSE, FALSE, TRUE, FALSE)} }
\* the same classes under v are class sets (unions)
FC1Sets == UNION { With({Cls(neg, its) : its \in FCSeqs({IC(cs), IC(cKelvin), IR(ca, 122), IE("w"), IE("W"), IE("D"),
                                                            IP("Lu", FALSE), IP("Lu", TRUE), IP("Ll", TRUE), IC(c1)}), neg \in BOOLEAN}
                        \cup {Prop(nm, ng) : nm \in {"Lu", "Ll"}, ng \in BOOLEAN}, fl)
                   : fl \in {Flags(FALSE, FALSE, FALSE, FALSE, TRUE), Flags(TRUE, FALSE, FALSE, FALSE, TRUE)} }
\* spellings: sp = 0 canonical, 1 = \u escapes, 2 = \x escapes (the runner's renderer)
FC1All == FC1Legacy \cup FC1Uni \cup FC1Sets
FC1 == {[ast |-> x.ast, fl |-> x.fl, sp |-> 0] : x \in FC1All}
         \cup {[ast |-> x.ast, fl |-> x.fl, sp |-> sp] :
                  x \in {y \in FC1All : Thorough \/ (y.ast.t = "cls" /\ Len(y.ast.items) = 1)}, sp \in {1, 2}}
FCHay == [alpha |-> {cs, cS, cLongS, ck, cK, cKelvin, ca, c1, cUnderscore}, maxlen |-> 2]

FC2Leaves == { SC(cs), SC(cKelvin), SC(cLongS), SR(ca, 122), SE("w"), SE("W"), SE("d"), SP("Lu", FALSE), SP("Lu", TRUE),
               SP("Ll", TRUE), SQ(<<Str(cs, ck), <<cs>>>>), SQ(<< <<>> >>), SQ(<< <<ck>> >>), SC(c1), SQ(<<Str(cS, cK), Str(ck, ck)>>) }
FC2Small == IF Thorough THEN { SC(cs), SC(cKelvin), SR(ca, 122), SE("W"), SP("Lu", TRUE), SQ(<<Str(cs, ck), <<cs>>>>), SP("Ll", FALSE), SQ(<< <<>> >>) }
            ELSE { SC(cs), SR(ca, 122), SE("W"), SP("Lu", TRUE), SQ(<<Str(cs, ck), <<cs>>>>) }
FC2Ops(x, y) == { SU(<<x, y>>), SI(<<x, y>>), SS(<<x, y>>) }
FC2E1 == FC2Leaves \cup UNION {FC2Ops(x, y) : x \in FC2Small, y \in FC2Small}
           \cup {SN(TRUE, x) : x \in {y \in FC2Leaves : ~MayContainStrings(y)}}
FC2Tiny == { SC(cs), SE("W"), SQ(<<Str(cs, ck), <<cs>>>>) }
FC2Inner == IF Thorough THEN {z \in FC2E1 : z.k \in {"u", "i", "s"}} ELSE UNION {FC2Ops(x, y) : x \in FC2Tiny, y \in FC2Tiny}
FC2E2 == UNION {FC2Ops(SN(FALSE, x), y) \cup FC2Ops(y, SN(ng, x)) : x \in FC2Inner, y \in FC2Small, ng \in BOOLEAN}
FC2Exprs == {x \in FC2E1 \cup FC2E2 : WellFormedSet(x)}
FC2Pats == {VCls(FALSE, x) : x \in FC2Exprs} \cup {VCls(TRUE, x) : x \in {y \in FC2Exprs : ~MayContainStrings(y)}}
FC2 == {[ast |-> n, fl |-> fl, sp |-> 0] : n \in FC2Pats,
          fl \in {Flags(FALSE, FALSE, FALSE, FALSE, TRUE), Flags(TRUE, FALSE, FALSE, FALSE, TRUE)}}
         \cup {[ast |-> Cat(<<Look(n, TRUE, FALSE), Eol>>), fl |-> Flags(TRUE, FALSE, FALSE, FALSE, TRUE), sp |-> 1] :
                  n \in {VCls(FALSE, x) : x \in FC2E1}}

(***************************************************************************)
(* F11: sub-patterns that can never match (empty class, [^\s\S]) next to   *)
(* groups held in every kind of container: whatever the optimizer prunes,  *)
(* every group of the pattern keeps its capture slot and its name.         *)
(***************************************************************************)
F11Fail == { Cls(FALSE, <<>>), Cls(TRUE, <<IE("s"), IE("S")>>) }
F11Groups == { Grp(A), NGrp(nA, A) }
F11Holders(g) == { g, Look(g, FALSE, FALSE), Look(g, FALSE, TRUE), Look(g, TRUE, FALSE), Look(g, TRUE, TRUE), Opt(g),
                   Rep(g, 0, 0, TRUE), Star(g), Ncg(Cat(<<g, B>>)) }
F11Tail == { Empty, Grp(Chr(cc)), NGrp(nB, Chr(cc)) }
F11Pats == UNION { { Cat(<<x, Ncg(Alt(<<Cat(<<f, h>>), B>>)), y>>), Cat(<<x, Ncg(Alt(<<B, Cat(<<h, f>>)>>)), y>>),
                     Cat(<<Opt(Ncg(Cat(<<f, h>>))), x, y>>), Alt(<<Cat(<<f, h, x>>), y>>), Cat(<<Rep(Ncg(Cat(<<h, f>>)), 0, 2, FALSE), y>>) }
                   : f \in F11Fail, h \in UNION {F11Holders(g) : g \in F11Groups}, x \in {Empty, Grp(B)}, y \in F11Tail }
F11 == With(F11Pats, NoFlags)
F11Hay == [alpha |-> {ca, cb, cc}, maxlen |-> 3]

(***************************************************************************)
(* F14: what distinguishes the UTF-16 / UCS-2 decoders: supplementary      *)
(* characters consumed and given back by loops in both directions,         *)
(* captured, back-referenced (also case-insensitively), next to \b, in     *)
(* classes and ranges, inside look-behind.                                 *)
(* F14L: the same with the legacy i flag and cased supplementary letters   *)
(* (compared between the entry points only: the standard works on UTF-16   *)
(* code units there).                                                      *)
(***************************************************************************)
F14Atoms == { Dot, Chr(cGrin), Cls(FALSE, <<IC(cGrin), IC(ca)>>), Cls(TRUE, <<IC(ca)>>), Cls(TRUE, <<IC(cGrin)>>),
              Esc("W"), Chr(cDeseretL), Cls(FALSE, <<IR(ca, cGrin)>>), Cls(FALSE, <<IR(cDeseretU, cDeseretL)>>) }
F14Q == { <<0, -1, TRUE>>, <<1, -1, TRUE>>, <<1, -1, FALSE>>, <<0, 1, TRUE>>, <<2, 2, TRUE>>, <<1, 2, FALSE>> }
F14Shapes(at, q) ==
  { Quant(at, q), Cat(<<Quant(at, q), Dot>>), Cat(<<Bol, Quant(at, q), Grp(Dot), Eol>>),
    Cat(<<Look(Cat(<<at, Grp(Quant(Dot, q))>>), TRUE, FALSE), A>>), Cat(<<Look(Cat(<<Grp(Quant(Dot, q)), at>>), TRUE, TRUE), Eol>>),
    Cat(<<Grp(Quant(at, q)), BRef(1)>>), Cat(<<Look(Cat(<<BRef(1), Grp(at)>>), TRUE, FALSE), Eol>>),
    \* a loop that must give characters back to the right of where a backward backreference landed
    Cat(<<Look(Cat(<<A, Quant(Dot, q), BRef(1), Grp(at)>>), TRUE, FALSE), Eol>>),
    Cat(<<Quant(at, q), Wb(FALSE)>>), Cat(<<Wb(TRUE), Quant(at, q), A>>) }
F14Pats == UNION {F14Shapes(at, q) : at \in F14Atoms, q \in F14Q}
F14 == UNION {With(F14Pats, fl) : fl \in {NoFlags, UFlags, Flags(TRUE, FALSE, FALSE, TRUE, FALSE)}}
F14Hay == [alpha |-> {ca, cGrin, cDeseretL, cDeseretU, cEacute}, maxlen |-> 3]
F14LPats == { Cat(<<Grp(Dot), BRef(1)>>), Cat(<<Look(Cat(<<BRef(1), Grp(Dot)>>), TRUE, FALSE), Eol>>), Chr(cDeseretL), Chr(cDeseretU),
              Cls(FALSE, <<IC(cDeseretL)>>), Cls(TRUE, <<IC(cDeseretU)>>), Cat(<<Grp(Plus(Dot)), BRef(1)>>), Plus(Chr(cDeseretL)),
              Cls(FALSE, <<IR(cDeseretU, cDeseretU)>>) }
F14L == With(F14LPats, Flags(TRUE, FALSE, FALSE, FALSE, FALSE))

(***************************************************************************)
(* F8p: literal prefixes that overlap themselves ("abab", bytes C3 A9 C3   *)
(* A9) followed by something that is not a literal, on every haystack long *)
(* enough to hold a failing occurrence overlapped by a succeeding one: a   *)
(* prefix search that resumes after a failed occurrence must resume inside *)
(* it.                                                                     *)
(***************************************************************************)
F8pCase(pat, alpha, n) == [ast |-> pat, fl |-> NoFlags, hays |-> StringsUpTo(alpha, n)]
F8p == { F8pCase(Cat(<<A, B, A, B, Cls(FALSE, <<IC(cc)>>)>>), {ca, cb, cc}, 7),
         F8pCase(Cat(<<A, B, A, B, Esc("d")>>), {ca, cb, c1}, 7),
         F8pCase(Alt(<<Cat(<<A, B, A, B, Chr(cc), Dot>>), Cat(<<A, B, A, B, Chr(cb), Dot>>)>>), {ca, cb, cc}, 7),
         F8pCase(Cat(<<Chr(cEacute), Chr(cEacute), Cls(FALSE, <<IC(cc)>>)>>), {cEacute, cc}, 6),
         F8pCase(Cat(<<A, A, B, A, A, Cls(FALSE, <<IC(cc)>>)>>), {ca, cb, cc}, 7) }

(***************************************************************************)
(* F20: patterns for the Searcher contract: empty matches at every         *)
(* position, at multi-byte characters and at both ends; adjacent matches;  *)
(* matches that end where an empty one begins.                             *)
(***************************************************************************)
F20Pats == { Empty, Star(A), Opt(A), Plus(A), A, Bol, Eol, Wb(FALSE), Wb(TRUE), Look(A, FALSE, FALSE), Look(A, TRUE, FALSE),
             Alt(<<A, Empty>>), Alt(<<Empty, A>>), Star(Chr(cEacute)), Chr(cEacute), Dot, Star(Dot), LazyStar(Dot), Cat(<<A, B>>),
             Alt(<<Cat(<<A, B>>), A>>), Rep(Dot, 2, 2, TRUE), Opt(Chr(cGrin)), Cat(<<Look(B, FALSE, TRUE), Opt(A)>>), Star(Esc("w")),
             Grp(Opt(A)), Cat(<<Opt(A), Opt(B)>>), Cls(TRUE, <<IC(ca)>>), Star(Cls(TRUE, <<IC(ca)>>)), Cat(<<Eol>>), Alt(<<B, Eol>>) }
F20 == With(F20Pats, NoFlags) \cup With({Star(A), Opt(Chr(cGrin)), Dot, Empty, Wb(FALSE)}, UFlags)
F20Hay == [alpha |-> {ca, cb, cEacute, cGrin}, maxlen |-> IF Thorough THEN 4 ELSE 3]

(***************************************************************************)
(* Registry                                                                *)
(***************************************************************************)
HaysOf(spec) == StringsUpTo(spec.alpha, spec.maxlen)

AttachHays(F, spec) == {[ast |-> x.ast, fl |-> x.fl, hays |-> HaysOf(spec)] : x \in F}
AttachHaysSp(F, spec) == {[ast |-> x.ast, fl |-> x.fl, sp |-> x.sp, hays |-> HaysOf(spec)] : x \in F}

FamilyCases(name) ==
  CASE name = "F1" -> AttachHays(F1, F1Hay)
    [] name = "F2" -> AttachHays(F2, F2Hay)
    [] name = "F2x" -> AttachHays(F2x, [alpha |-> {ca, cb, cc}, maxlen |-> 3])
    [] name = "F3" -> AttachHays(F3, F3Hay)
    [] name = "F4" -> AttachHays(F4, F4Hay)
    [] name = "F5" -> AttachHays(F5, F5Hay)
    [] name = "F6" -> AttachHays(F6, F6Hay)
    [] name = "F7" -> F7
    [] name = "F8" -> AttachHays(F8, F8Hay)
    [] name = "F10" -> AttachHays(F10, F10Hay)
    [] name = "F9" -> F9
    [] name = "F1b" -> AttachHays(F1b, F1bHay)
    [] name = "F13" -> AttachHays(F13, F13Hay)
    [] name = "F20" -> AttachHays(F20, F20Hay)
    [] name = "F4b" -> AttachHays(F4b, F4bHay)
    [] name = "F8m" -> AttachHays(F8m, F8mHay)
    [] name = "F8p" -> F8p
    [] name = "F11" -> AttachHays(F11, F11Hay)
    [] name = "F14" -> AttachHays(F14, F14Hay)
    [] name = "F14L" -> AttachHays(F14L, F14Hay)
    [] name = "FC1" -> AttachHaysSp(FC1, FCHay)
    [] name = "FC2" -> AttachHaysSp(FC2, FCHay)
=============================================================================
