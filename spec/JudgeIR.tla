------------------------------ MODULE JudgeIR ------------------------------
(***************************************************************************)
(* Judge the trees recorded by the hook verif::ir_trace_json (records of   *)
(* `runner sem --progs`: pattern tree, flags, haystacks, and the IR after  *)
(* parsing and after every optimizer pass that changed it).                *)
(*                                                                         *)
(*  irparse  the parsed tree does not mean what the pattern means          *)
(*           (IRSem of stage 1 against ESSem of the pattern, every         *)
(*           anchored attempt of every haystack): the parser's lowering.   *)
(*  irpass   a pass changed the meaning of the tree (IRSem of the last     *)
(*           stage against stage 1; the first stage that differs from its  *)
(*           predecessor names the pass): the optimizer, C03.               *)
(*  irwf     a stage is not well formed (IRSem!IRDefects).                  *)
(*  opttrace the recorded stages are not the run of the optimizer          *)
(*           specification from the parsed tree (OptPasses!Stages): a      *)
(*           diagnostic, since an optimizer may change without changing    *)
(*           what patterns mean.                                           *)
(*  predtrace the start predicate dumped with a program is not the one     *)
(*           StartPred!PredicateFor derives from the program's tree        *)
(*           (diagnostic); predspec: the derived predicate rejects an      *)
(*           offset at which the tree matches (IRSem) - the derivation     *)
(*           itself is unsound there (C04 at the level of the tree).       *)
(*  emittrace a dumped program is not the one Emit!Emit produces from its   *)
(*           tree (diagnostic).                                            *)
(* Family F14L (legacy ignoreCase on supplementary letters) is not judged  *)
(* against ESSem anywhere (Families.tla) and is skipped here too.          *)
(***************************************************************************)
EXTENDS ESSem, Emit, RegexAST, TLC, Json, IOUtils

Obs == ndJsonDeserialize(IOEnv.OBS)
NObs == Len(Obs)
NCHAINS == 16
MAXHAYS == atoi(IOEnv.MAXHAYS)
Min2(a, b) == IF a < b THEN a ELSE b

Uni(r) == r.fl.u \/ r.fl.v
Hays(r) == SubSeq(r.hays, 1, Min2(Len(r.hays), MAXHAYS))

StageSem(r, k) == [hi \in DOMAIN Hays(r) |-> IRAttempts(r.ir[k].ir, r.ng, r.hays[hi], Uni(r))]
RefSem(r, past, dev) == [hi \in DOMAIN Hays(r) |-> Attempts(past, r.ng, r.hays[hi], EnvDev(r.fl, dev))]

Deviations == {"D8", "D9", "D10"}

\* first index at which two equally long sequences differ (0: none)
FirstDiff(a, b) == IF a = b THEN 0 ELSE CHOOSE k \in DOMAIN a : a[k] # b[k] /\ \A j \in 1..(k - 1) : a[j] = b[j]

RECURSIVE FirstBadStage(_, _, _)
\* the first stage k >= 2 whose meaning differs from that of stage k-1
FirstBadStage(r, k, prev) ==
  IF k > Len(r.ir) THEN 0
  ELSE LET cur == StageSem(r, k) IN IF cur # prev THEN k ELSE FirstBadStage(r, k + 1, cur)

Report(r) ==
  IF "ir" \notin DOMAIN r \/ Len(r.ir) = 0 \/ r.fam = "F14L"
  THEN PrintT("J " \o ToJson([kind |-> "irstat", id |-> r.rid, judged |-> FALSE, stages |-> 0, evals |-> 0]))
  ELSE
  LET past == Prepare(r.ast, EnvOf(r.fl))
      ref == RefSem(r, past, {})
      s1 == StageSem(r, 1)
      nst == Len(r.ir)
      sl == IF nst = 1 THEN s1 ELSE StageSem(r, nst)
      wf == [k \in 1..nst |-> IRDefects(r.ir[k].ir, r.ng)]
      hp == FirstDiff(ref, s1)
      hl == FirstDiff(s1, sl)
  IN /\ hp = 0 \/ LET q == FirstDiff(ref[hp], s1[hp])
                       devs == {d \in Deviations : RefSem(r, past, {d}) = s1}
                   IN PrintT("J " \o ToJson([kind |-> "irparse", id |-> r.rid, h |-> hp - 1, s |-> q - 1,
                                              exp |-> ref[hp][q], got |-> s1[hp][q], dev |-> SetToSeq(devs)]))
     /\ hl = 0 \/ LET q == FirstDiff(s1[hl], sl[hl])
                       k == FirstBadStage(r, 2, s1)
                   IN PrintT("J " \o ToJson([kind |-> "irpass", id |-> r.rid, h |-> hl - 1, s |-> q - 1,
                                              exp |-> s1[hl][q], got |-> sl[hl][q],
                                              pass |-> IF k = 0 THEN "?" ELSE r.ir[k].pass, stage |-> k]))
     /\ \A k \in 1..nst : wf[k] = {} \/
           PrintT("J " \o ToJson([kind |-> "irwf", id |-> r.rid, stage |-> k, pass |-> r.ir[k].pass,
                                   what |-> SetToSeq(wf[k])]))
     /\ LET exp == Stages(r.ir[1].ir)
            same == Len(exp) = nst /\ \A k \in 1..nst : exp[k] = r.ir[k]
        IN same \/ LET k == IF \E j \in 1..Min2(nst, Len(exp)) : exp[j] # r.ir[j]
                              THEN CHOOSE j \in 1..Min2(nst, Len(exp)) : exp[j] # r.ir[j] /\ \A q \in 1..(j - 1) : exp[q] = r.ir[q]
                              ELSE Min2(nst, Len(exp)) + 1
                    IN PrintT("J " \o ToJson([kind |-> "opttrace", id |-> r.rid, stage |-> k,
                                               exp |-> IF k <= Len(exp) THEN exp[k] ELSE [pass |-> "(none)"],
                                               got |-> IF k <= nst THEN r.ir[k] ELSE [pass |-> "(none)"]]))
     /\ \A w \in {"opt", "noopt"} :
           LET t == IF w = "opt" THEN r.ir[nst].ir ELSE r.ir[1].ir
               exp == PredicateFor(t, r.fl.m)
               got == r.progs[w].start_pred
               same == exp.kind = got.kind /\ ("bytes" \in DOMAIN exp => exp.bytes = got.bytes)
               sem == IF w = "opt" THEN sl ELSE s1
               bad == IF exp.kind = "Arbitrary" THEN {} ELSE {hi \in DOMAIN Hays(r) : UnsoundAt(exp, sem[hi], r.hays[hi]) # {}}
               em == Emit(t, Uni(r))
               pg == r.progs[w]
               emsame == em.insns = pg.insns /\ em.brackets = pg.brackets /\ em.loops = pg.loops /\ em.groups = pg.groups
           IN /\ emsame \/ LET n == Min2(Len(em.insns), Len(pg.insns))
                                k == IF \E j \in 1..n : em.insns[j] # pg.insns[j]
                                     THEN CHOOSE j \in 1..n : em.insns[j] # pg.insns[j] /\ \A q \in 1..(j - 1) : em.insns[q] = pg.insns[q]
                                     ELSE n + 1
                            IN PrintT("J " \o ToJson([kind |-> "emittrace", id |-> r.rid, prog |-> w, at |-> k - 1,
                                   exp |-> IF k <= Len(em.insns) THEN em.insns[k] ELSE [op |-> "(end)"],
                                   got |-> IF k <= Len(pg.insns) THEN pg.insns[k] ELSE [op |-> "(end)"],
                                   counts |-> <<em.loops, pg.loops, em.groups, pg.groups, Len(em.brackets), Len(pg.brackets)>>]))
              /\ same \/ PrintT("J " \o ToJson([kind |-> "predtrace", id |-> r.rid, prog |-> w, exp |-> exp, got |-> got]))
              /\ bad = {} \/ LET hi == CHOOSE x \in bad : TRUE IN
                    PrintT("J " \o ToJson([kind |-> "predspec", id |-> r.rid, prog |-> w, h |-> hi - 1, pred |-> exp,
                                            at |-> SetToSeq(UnsoundAt(exp, sem[hi], r.hays[hi]))]))
     /\ PrintT("J " \o ToJson([kind |-> "irstat", id |-> r.rid, judged |-> TRUE, stages |-> nst,
                                evals |-> FoldLeft(LAMBDA acc, hh : acc + Len(hh) + 1, 0, Hays(r))]))

\* (the first state judges nothing: TLC evaluates initial states on a thread with a small stack)
VARIABLE i
Init == i = 0
Next == IF i = 0 THEN i' \in 1..Min2(NCHAINS, NObs) ELSE i + NCHAINS <= NObs /\ i' = i + NCHAINS
Judged == i = 0 \/ Report(Obs[i])
=============================================================================
