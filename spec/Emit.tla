--------------------------------- MODULE Emit ---------------------------------
(***************************************************************************)
(* The emitter (src/emit.rs): IR tree -> program, as a function.           *)
(*                                                                         *)
(* Emit(tree, uni) is the whole program in the shape the hook              *)
(* verif_program_json dumps it: the instruction records (field op), the    *)
(* bracket table, the loop and group counts.  It is exact - every field of *)
(* every instruction, absolute jump targets, loop ids in emission order,   *)
(* byte literals in chunks of 16 (reversed inside a look-behind), string   *)
(* sets as Alt chains over lowered literals - and JudgeIR compares it      *)
(* with both dumped programs of every enumerated pattern (the optimized    *)
(* one from the last recorded tree, the no_opt one from the parsed tree).  *)
(* Together with IRSem (what a tree means), OptPasses (tree -> tree) and   *)
(* StartPred (tree -> predicate) this closes the chain from the parsed     *)
(* tree to the bytes the executors run, whose meaning Bytecode.tla /       *)
(* BacktrackVM.tla / PikeVM.tla give.                                      *)
(***************************************************************************)
EXTENDS StartPred

MaxByteSeqLength == 16
Clamp(n) == IF n = -1 THEN -1 ELSE IF n > 1073741824 THEN 1073741824 ELSE n

\* literal.rs lower_code_point_sequence: pieces as IR nodes
Expand(c, icase, uni) == IF ~icase THEN <<c>> ELSE SetToSortSeq(EqClass(c, TRUE, uni), <)

RECURSIVE LowerFrom(_, _, _, _, _)
LowerFrom(cps, k, icase, uni, acc) ==
  IF k > Len(cps) THEN acc
  ELSE LET chars == Expand(cps[k], icase, uni) IN
    IF Len(chars) = 1
    THEN (IF IsScalar(chars[1])
          THEN (IF acc # <<>> /\ acc[Len(acc)].t = "bytes"
                THEN LowerFrom(cps, k + 1, icase, uni,
                               [acc EXCEPT ![Len(acc)].bs = acc[Len(acc)].bs \o Utf8(chars[1])])
                ELSE LowerFrom(cps, k + 1, icase, uni, Append(acc, [t |-> "bytes", bs |-> Utf8(chars[1])])))
          ELSE LowerFrom(cps, k + 1, icase, uni, Append(acc, [t |-> "char", c |-> chars[1]])))
    ELSE LowerFrom(cps, k + 1, icase, uni,
                   Append(acc, IF \A j \in DOMAIN chars : chars[j] <= 127
                               THEN [t |-> "byteset", bs |-> chars] ELSE [t |-> "charset", cs |-> chars]))
Lower(cps, icase, uni) == LowerFrom(cps, 1, icase, uni, <<>>)

RECURSIVE Chunks(_)
Chunks(bs) == IF Len(bs) <= MaxByteSeqLength THEN (IF bs = <<>> THEN <<>> ELSE <<bs>>)
              ELSE <<SubSeq(bs, 1, MaxByteSeqLength)>> \o Chunks(SubSeq(bs, MaxByteSeqLength + 1, Len(bs)))

AsciiBracket(n) == ~n.neg /\ \A k \in DOMAIN n.ivs : n.ivs[k][2] < 128

\* The emitter's running state: next instruction offset is base + Len(code).
\* E(n, base, lid, nbr, lb, uni) = [code, lid (next loop id), brs (brackets appended)]
RECURSIVE E(_, _, _, _, _, _), ESeq(_, _, _, _, _, _, _), EStrings(_, _, _, _, _, _, _, _)

Out(code, lid, brs) == [code |-> code, lid |-> lid, brs |-> brs]

\* nodes one after the other
ESeq(xs, k, base, lid, nbr, lb, uni) ==
  IF k > Len(xs) THEN Out(<<>>, lid, <<>>)
  ELSE LET a == E(xs[k], base, lid, nbr, lb, uni)
           r == ESeq(xs, k + 1, base + Len(a.code), a.lid, nbr + Len(a.brs), lb, uni)
       IN Out(a.code \o r.code, r.lid, a.brs \o r.brs)

\* a literal of a string set: its pieces, right to left inside a look-behind
ELiteral(cps, icase, base, lid, nbr, lb, uni) ==
  LET ps == Lower(cps, icase, uni) IN ESeq(IF lb THEN Reverse(ps) ELSE ps, 1, base, lid, nbr, lb, uni)

\* emit_string_set from alternative k on; jumps are fixed up to `end` by the caller
EStrings(alts, k, icase, base, lid, nbr, lb, uni) ==
  IF k = Len(alts) THEN ELiteral(alts[k], icase, base, lid, nbr, lb, uni)
  ELSE LET lit == ELiteral(alts[k], icase, base + 1, lid, nbr, lb, uni)
           next == base + 1 + Len(lit.code) + 1
           rest == EStrings(alts, k + 1, icase, next, lit.lid, nbr + Len(lit.brs), lb, uni)
       IN Out(<<[op |-> "Alt", secondary |-> next]>> \o lit.code \o <<[op |-> "Jump", target |-> -1]>> \o rest.code,
              rest.lid, lit.brs \o rest.brs)

E(n, base, lid, nbr, lb, uni) ==
  CASE n.t = "empty" -> Out(<<>>, lid, <<>>)
    [] n.t = "goal" -> Out(<<[op |-> "Goal"]>>, lid, <<>>)
    [] n.t = "char" -> Out(<<[op |-> "Char", c |-> n.c]>>, lid, <<>>)
    [] n.t = "cat" -> ESeq(n.xs, 1, base, lid, nbr, lb, uni)
    [] n.t = "alt" ->
         LET l == E(n.xs[1], base + 1, lid, nbr, lb, uni)
             rb == base + 1 + Len(l.code) + 1
             r == E(n.xs[2], rb, l.lid, nbr + Len(l.brs), lb, uni)
         IN Out(<<[op |-> "Alt", secondary |-> rb]>> \o l.code
                \o <<[op |-> "Jump", target |-> rb + Len(r.code)]>> \o r.code, r.lid, l.brs \o r.brs)
    [] n.t = "bracket" ->
         IF AsciiBracket(n)
         THEN Out(<<[op |-> "ByteSet", bytes |-> SetToSortSeq({c \in 0..127 : InIvs(n.ivs, c)}, <)]>>, lid, <<>>)
         ELSE Out(<<[op |-> "Bracket", idx |-> nbr]>>, lid, <<[invert |-> n.neg, ivs |-> n.ivs]>>)
    [] n.t = "strset" ->
         IF n.alts = <<>> THEN Out(<<[op |-> "JustFail"]>>, lid, <<>>)
         ELSE LET r == EStrings(n.alts, 1, n.ic, base, lid, nbr, lb, uni)
                  end == base + Len(r.code)
              IN Out([k \in DOMAIN r.code |->
                        IF r.code[k].op = "Jump" /\ r.code[k].target = -1 THEN [r.code[k] EXCEPT !.target = end]
                        ELSE r.code[k]], r.lid, r.brs)
    [] n.t = "any" -> Out(<<[op |-> "MatchAny"]>>, lid, <<>>)
    [] n.t = "anynl" -> Out(<<[op |-> "MatchAnyExceptLT"]>>, lid, <<>>)
    [] n.t = "anchor" -> Out(<<[op |-> IF n.start THEN "StartOfLine" ELSE "EndOfLine", multiline |-> n.ml]>>, lid, <<>>)
    [] n.t = "loop" ->
         LET resets == [g \in 1..(IF n.ghi > n.glo THEN n.ghi - n.glo ELSE 0) |-> [op |-> "ResetCG", g |-> n.glo + g - 1]]
             b == E(n.b, base + 1 + Len(resets), lid + 1, nbr, lb, uni)
             exit == base + 1 + Len(resets) + Len(b.code) + 1
         IN Out(<<[op |-> "EnterLoop", id |-> lid, min |-> Clamp(n.min), max |-> Clamp(n.max),
                   greedy |-> n.greedy, exit |-> exit]>>
                \o resets \o b.code \o <<[op |-> "LoopAgain", begin |-> base]>>, b.lid, b.brs)
    [] n.t = "loop1" ->
         LET b == E(n.b, base + 1, lid, nbr, lb, uni)
         IN Out(<<[op |-> "Loop1CharBody", min |-> Clamp(n.min), max |-> Clamp(n.max), greedy |-> n.greedy]>> \o b.code,
                b.lid, b.brs)
    [] n.t = "grp" ->
         LET b == E(n.b, base + 1, lid, nbr, lb, uni)
         IN Out(<<[op |-> "BeginCG", g |-> n.id]>> \o b.code \o <<[op |-> "EndCG", g |-> n.id]>>, b.lid, b.brs)
    [] n.t = "look" ->
         LET b == E(n.b, base + 1, lid, nbr, n.behind, uni)
         IN Out(<<[op |-> "Look", behind |-> n.behind, negate |-> n.neg, sg |-> n.sg, eg |-> n.eg,
                   cont |-> base + 1 + Len(b.code) + 1]>> \o b.code \o <<[op |-> "Goal"]>>, b.lid, b.brs)
    [] n.t = "wb" -> Out(<<[op |-> "WordBoundary", invert |-> n.neg, uicase |-> n.ui]>>, lid, <<>>)
    [] n.t = "bref" -> Out(<<[op |-> "BackRef", g |-> n.n - 1, icase |-> n.ic]>>, lid, <<>>)
    [] n.t = "byteset" ->
         Out(<<IF Len(n.bs) = 0 THEN [op |-> "JustFail"]
               ELSE IF Len(n.bs) = 1 THEN [op |-> "ByteSeq", bytes |-> n.bs]
               ELSE [op |-> "ByteSet", bytes |-> n.bs]>>, lid, <<>>)
    [] n.t = "charset" ->
         Out(<<IF n.cs = <<>> THEN [op |-> "JustFail"]
               ELSE [op |-> "CharSet", chars |-> [k \in 1..MaxCharSetLength |-> IF k <= Len(n.cs) THEN n.cs[k] ELSE n.cs[1]]]>>,
             lid, <<>>)
    [] n.t = "bytes" ->
         LET cs == Chunks(n.bs) IN
         Out([k \in DOMAIN cs |-> [op |-> "ByteSeq", bytes |-> IF lb THEN cs[Len(cs) + 1 - k] ELSE cs[k]]], lid, <<>>)

RECURSIVE CountKind(_, _)
CountKind(n, kind) ==
  (IF n.t = kind THEN 1 ELSE 0)
  + (CASE n.t \in {"cat", "alt"} -> FoldLeft(LAMBDA acc, x : acc + CountKind(x, kind), 0, n.xs)
       [] n.t \in {"grp", "look", "loop", "loop1"} -> CountKind(n.b, kind)
       [] OTHER -> 0)

\* the program, without the start predicate (StartPred!PredicateFor) and the names
Emit(tree, uni) ==
  LET r == E(tree, 0, 0, 0, FALSE, uni)
  IN [insns |-> r.code, brackets |-> r.brs, loops |-> r.lid, groups |-> CountKind(tree, "grp")]
=============================================================================
