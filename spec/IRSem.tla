-------------------------------- MODULE IRSem --------------------------------
(***************************************************************************)
(* Semantics of the intermediate representation (src/ir.rs), the interface *)
(* between the parser, the optimizer and the emitter.                      *)
(*                                                                         *)
(* The parser resolves the flags while it lowers the pattern: a literal    *)
(* under ignoreCase is already a set of code points, a class is already an *)
(* interval list, `.` is one of two nodes, an anchor carries its multiline *)
(* bit, the children of a concatenation inside a look-behind are already   *)
(* reversed.  So the IR has a meaning of its own, independent of flags     *)
(* except for the regex-wide unicode bit that backreference and string     *)
(* comparison use.  It is given here in the same style as ESSem: a node    *)
(* is the sequence of all its successful end states in priority order.     *)
(*                                                                         *)
(* IR nodes as the hook verif::ir_trace_json writes them (field t):        *)
(*   empty | goal | char c | bytes bs | byteset bs | charset cs            *)
(*   cat xs | alt xs | any | anynl | anchor start ml | wb neg ui           *)
(*   grp id b | bref n ic | bracket neg ivs | strset ic alts               *)
(*   look neg behind sg eg b | loop min max greedy glo ghi b               *)
(*   loop1 min max greedy b                                                *)
(* The fields the emitter acts on are used as they are: a loop resets the  *)
(* groups glo..ghi-1 at every iteration whatever its body contains; that   *)
(* they are the groups of the body is the separate invariant WellFormed.   *)
(***************************************************************************)
EXTENDS Alphabet, Naturals, Integers, Sequences, FiniteSets, SequencesExt, Functions

IUndef == <<-1, -1>>

IFlatMap(F(_), seq) == FoldLeft(LAMBDA acc, r : acc \o F(r), <<>>, seq)
ISeqToSet(s) == {s[k] : k \in DOMAIN s}

RECURSIVE Utf8Dec(_)
\* The code points a well-formed UTF-8 byte string encodes.
Utf8Dec(bs) ==
  IF bs = <<>> THEN <<>>
  ELSE LET b == bs[1] IN
    IF b < 128 THEN <<b>> \o Utf8Dec(SubSeq(bs, 2, Len(bs)))
    ELSE IF b < 224 THEN <<(b - 192) * 64 + (bs[2] - 128)>> \o Utf8Dec(SubSeq(bs, 3, Len(bs)))
    ELSE IF b < 240 THEN <<(b - 224) * 4096 + (bs[2] - 128) * 64 + (bs[3] - 128)>>
                          \o Utf8Dec(SubSeq(bs, 4, Len(bs)))
    ELSE <<(b - 240) * 262144 + (bs[2] - 128) * 4096 + (bs[3] - 128) * 64 + (bs[4] - 128)>>
         \o Utf8Dec(SubSeq(bs, 5, Len(bs)))

InIvs(ivs, c) == \E k \in DOMAIN ivs : ivs[k][1] <= c /\ c <= ivs[k][2]

\* Does the single-character node n accept ch?
IRCharOk(n, ch) ==
  CASE n.t = "char" -> ch = n.c
    [] n.t = "byteset" -> ch < 128 /\ ch \in ISeqToSet(n.bs)
    [] n.t = "charset" -> ch \in ISeqToSet(n.cs)
    [] n.t = "bracket" -> InIvs(n.ivs, ch) # n.neg
    [] n.t = "any" -> TRUE
    [] n.t = "anynl" -> ch \notin LineTerminators

IRIsCharNode(n) == n.t \in {"char", "byteset", "charset", "bracket", "any", "anynl"}

\* A literal string lit (in reading order) at the cursor: after it when running
\* forwards, before it when running backwards.  eq compares two code points.
LitRun(lit, st, fwd, h, eq(_, _)) ==
  LET len == Len(lit)
      lo == IF fwd THEN st.p ELSE st.p - len
  IN IF lo < 0 \/ lo + len > Len(h) THEN <<>>
     ELSE IF \A k \in 1..len : eq(lit[k], h[lo + k])
          THEN <<[st EXCEPT !.p = IF fwd THEN lo + len ELSE lo]>> ELSE <<>>

IRWordAt(h, k, ui) == k >= 1 /\ k <= Len(h) /\ IsWordCp(h[k], ui, ui)

RECURSIVE IRun(_, _, _, _, _), ICat(_, _, _, _, _, _), IRep(_, _, _, _, _, _, _, _, _)

\* uni is the regex-wide unicode bit.
IRun(n, st, fwd, h, uni) ==
  LET pos == st.p IN
  CASE n.t \in {"empty", "goal"} -> <<st>>
    [] IRIsCharNode(n) ->
         IF (fwd /\ pos >= Len(h)) \/ (~fwd /\ pos <= 0) THEN <<>>
         ELSE LET ch == IF fwd THEN h[pos + 1] ELSE h[pos]
              IN IF IRCharOk(n, ch) THEN <<[st EXCEPT !.p = IF fwd THEN pos + 1 ELSE pos - 1]>> ELSE <<>>
    [] n.t = "bytes" -> LitRun(Utf8Dec(n.bs), st, fwd, h, LAMBDA a, b : a = b)
    [] n.t = "strset" ->
         IFlatMap(LAMBDA alt :
                    LitRun(alt, st, fwd, h,
                           LAMBDA a, b : IF n.ic THEN Canon(a, TRUE, uni) = Canon(b, TRUE, uni) ELSE a = b),
                  n.alts)
    [] n.t = "cat" -> ICat(n.xs, 1, st, fwd, h, uni)
    [] n.t = "alt" -> IFlatMap(LAMBDA x : IRun(x, st, fwd, h, uni), n.xs)
    [] n.t = "grp" ->
         LET rs == IRun(n.b, st, fwd, h, uni)
         IN [k \in DOMAIN rs |->
               [rs[k] EXCEPT !.c[n.id + 1] = IF fwd THEN <<pos, rs[k].p>> ELSE <<rs[k].p, pos>>]]
    [] n.t = "bref" ->
         LET r == st.c[n.n] IN
         IF r = IUndef THEN <<st>>
         ELSE LET len == r[2] - r[1]
                  f == IF fwd THEN pos + len ELSE pos - len
                  g0 == IF fwd THEN pos ELSE f
              IN IF f < 0 \/ f > Len(h) THEN <<>>
                 ELSE IF \A k \in 1..len :
                           IF n.ic THEN Canon(h[r[1] + k], TRUE, uni) = Canon(h[g0 + k], TRUE, uni)
                           ELSE h[r[1] + k] = h[g0 + k]
                      THEN <<[st EXCEPT !.p = f]>> ELSE <<>>
    [] n.t = "look" ->
         LET rs == IRun(n.b, st, ~n.behind, h, uni) IN
         IF n.neg THEN (IF rs = <<>> THEN <<st>> ELSE <<>>)
         ELSE (IF rs = <<>> THEN <<>> ELSE <<[st EXCEPT !.c = rs[1].c]>>)
    [] n.t = "anchor" ->
         IF n.start
         THEN (IF pos = 0 \/ (n.ml /\ h[pos] \in LineTerminators) THEN <<st>> ELSE <<>>)
         ELSE (IF pos = Len(h) \/ (n.ml /\ h[pos + 1] \in LineTerminators) THEN <<st>> ELSE <<>>)
    [] n.t = "wb" ->
         IF (IRWordAt(h, pos, n.ui) # IRWordAt(h, pos + 1, n.ui)) # n.neg THEN <<st>> ELSE <<>>
    [] n.t = "loop" -> IRep(n.b, n.min, n.max, n.greedy, n.glo..(n.ghi - 1), st, fwd, h, uni)
    [] n.t = "loop1" -> IRep(n.b, n.min, n.max, n.greedy, {}, st, fwd, h, uni)

ICat(xs, k, st, fwd, h, uni) ==
  IF k > Len(xs) THEN <<st>>
  ELSE IFlatMap(LAMBDA r : ICat(xs, k + 1, r, fwd, h, uni), IRun(xs[k], st, fwd, h, uni))

\* RepeatMatcher with the reset set given explicitly.  mx = -1 is infinity.
IRep(b, mn, mx, greedy, gs, st, fwd, h, uni) ==
  IF mx = 0 THEN <<st>>
  ELSE LET st1 == [st EXCEPT !.c = [k \in DOMAIN st.c |-> IF (k - 1) \in gs THEN IUndef ELSE st.c[k]]]
           iter == IFlatMap(LAMBDA r :
                              IF mn = 0 /\ r.p = st.p THEN <<>>
                              ELSE IRep(b, IF mn = 0 THEN 0 ELSE mn - 1,
                                        IF mx = -1 THEN -1 ELSE mx - 1, greedy, gs, r, fwd, h, uni),
                            IRun(b, st1, fwd, h, uni))
       IN IF mn > 0 THEN iter
          ELSE IF greedy THEN iter \o <<st>> ELSE <<st>> \o iter

INoMatch == <<>>
\* An anchored attempt at index p, in the same shape as ESSem!Attempt.
IRAttempt(ir, ng, h, uni, p) ==
  LET rs == IRun(ir, [p |-> p, c |-> [k \in 1..ng |-> IUndef]], TRUE, h, uni)
  IN IF rs = <<>> THEN INoMatch ELSE << <<p, rs[1].p>> >> \o rs[1].c

IRAttempts(ir, ng, h, uni) == [q \in 1..(Len(h) + 1) |-> IRAttempt(ir, ng, h, uni, q - 1)]

(***************************************************************************)
(* Well-formedness of a tree: what the emitter and the executors rely on.  *)
(***************************************************************************)
RECURSIVE IGroups(_), ISubs(_)
\* capture group ids in a tree, as a sequence in tree order (to see duplicates)
IGroups(n) ==
  CASE n.t = "grp" -> <<n.id>> \o IGroups(n.b)
    [] n.t \in {"cat", "alt"} -> IFlatMap(LAMBDA x : IGroups(x), n.xs)
    [] n.t \in {"look", "loop", "loop1"} -> IGroups(n.b)
    [] OTHER -> <<>>

\* every node of a tree
ISubs(n) ==
  {n} \cup (CASE n.t \in {"cat", "alt"} -> UNION {ISubs(n.xs[k]) : k \in DOMAIN n.xs}
              [] n.t \in {"grp", "look", "loop", "loop1"} -> ISubs(n.b)
              [] OTHER -> {})

\* What is wrong with a tree (empty set: nothing).
IRDefects(ir, ng) ==
  LET gs == IGroups(ir)
      subs == ISubs(ir)
  IN (IF Len(gs) # Cardinality(ISeqToSet(gs)) THEN {"a capture group occurs twice"} ELSE {})
     \cup (IF ISeqToSet(gs) # 0..(ng - 1) THEN {"the capture groups are not 0..n-1"} ELSE {})
     \cup {"a loop's enclosed group range is not the groups of its body" :
             x \in {y \in subs : y.t = "loop" /\ ISeqToSet(IGroups(y.b)) # y.glo..(y.ghi - 1)}}
     \cup {"a look-around's group range is not the groups of its body" :
             x \in {y \in subs : y.t = "look" /\ ISeqToSet(IGroups(y.b)) # y.sg..(y.eg - 1)}}
     \cup {"the body of a one-character loop is not a one-character node" :
             x \in {y \in subs : y.t = "loop1" /\ ~(IRIsCharNode(y.b) \/ (y.b.t = "bytes" /\ Len(Utf8Dec(y.b.bs)) = 1))}}
     \cup {"a loop's maximum is below its minimum" :
             x \in {y \in subs : y.t \in {"loop", "loop1"} /\ y.max # -1 /\ y.max < y.min}}
     \cup {"a backreference names a group that does not exist" :
             x \in {y \in subs : y.t = "bref" /\ (y.n < 1 \/ y.n > ng)}}
=============================================================================
