CONSTANT Threads <- T3
CONSTANT Queue <- Queue3
CONSTANT Steps <- Steps3
CONSTANT SharedScratch = FALSE
SPECIFICATION Spec
INVARIANT ResultsSequential
INVARIANT EmitSchedule
PROPERTY ProgImmutable
PROPERTY Terminates
CHECK_DEADLOCK FALSE
