------------------------------ MODULE MCSearch ------------------------------
(* Every attempt table and every predicate table on a haystack of MaxLen characters, both
   kinds of predicate, every start.  RequireSound = FALSE is the vacuity guard: TLC must
   then find a search that passes over a match. *)
EXTENDS Search, TLC
CONSTANTS MaxLen, RequireSound
Ends2(p) == {None} \cup (p..MaxLen)
Tables == {A \in [1..(MaxLen + 1) -> (0..MaxLen) \cup {None}] : \A q \in 1..(MaxLen + 1) : A[q] \in Ends2(q - 1)}
Preds == [1..(MaxLen + 1) -> BOOLEAN]
MCInit == \E A \in Tables : \E D \in Preds : \E anch \in BOOLEAN : \E s \in 0..MaxLen :
            /\ SInitWith(MaxLen, A, D, anch, s)
            /\ RequireSound => (IF anch THEN \A p \in (s + 1)..MaxLen : A[p + 1] = None
                                ELSE \A p \in s..MaxLen : A[p + 1] # None => D[p + 1])
MCSpec == MCInit /\ [][SNext]_svars /\ WF_svars(SNext)
=============================================================================
