CONSTANT TIER = "quick"
INIT Init
NEXT Next
CHECK_DEADLOCK FALSE
