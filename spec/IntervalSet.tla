----------------------------- MODULE IntervalSet -----------------------------
(***************************************************************************)
(* The CodePointSet state machine (src/codepointset.rs): a set of code     *)
(* points kept as a sorted list of disjoint, non-abutting closed           *)
(* intervals, with the operations the parser and the case-folding code use:*)
(* add, add_set, remove, intersect, inverted.                              *)
(*                                                                         *)
(* The code point space 0..MaxCp is cut into consecutive blocks at the     *)
(* boundaries Bounds; the model's sets are unions of blocks, so adjacency  *)
(* (which decides whether two intervals must be merged) is exactly that of *)
(* the real code points.  The state is the interval list itself; every     *)
(* operation is specified by its set meaning and the list is the canonical *)
(* form of the resulting set.                                              *)
(***************************************************************************)
EXTENDS Naturals, Sequences, FiniteSets

CONSTANT Bounds,       \* strictly increasing sequence b_1 = 0 < b_2 < ... < b_n <= MaxCp
         Observe(_, _, _, _)   \* hook evaluated on every transition (before, op, arg, after); TRUE in the design
MaxCp == 1114111

NB == Len(Bounds)
Blocks == 1..NB
First(i) == Bounds[i]
Last(i) == IF i = NB THEN MaxCp ELSE Bounds[i + 1] - 1

\* --- sets of blocks <-> canonical interval lists (in real code points) ---
RECURSIVE RunEnd(_, _)
\* the last block of the maximal run of members starting at block i
RunEnd(S, i) == IF i + 1 \in S THEN RunEnd(S, i + 1) ELSE i

RECURSIVE IvsFrom(_, _)
IvsFrom(S, i) ==
  IF i > NB THEN <<>>
  ELSE IF i \in S THEN LET e == RunEnd(S, i) IN <<<<First(i), Last(e)>>>> \o IvsFrom(S, e + 1)
  ELSE IvsFrom(S, i + 1)
Canon(S) == IvsFrom(S, 1)

\* the set of blocks covered by an interval list
BlocksOf(ivs) == {i \in Blocks : \E k \in DOMAIN ivs : ivs[k][1] <= First(i) /\ Last(i) <= ivs[k][2]}

\* Well-formedness of an interval list: the representation invariant of CodePointSet.
WellFormed(ivs) ==
  /\ \A k \in DOMAIN ivs : ivs[k][1] <= ivs[k][2] /\ ivs[k][2] <= MaxCp
  /\ \A k \in 1..(Len(ivs) - 1) : ivs[k][2] + 1 < ivs[k + 1][1]     \* sorted, disjoint, not abutting

VARIABLE ivs
vars == <<ivs>>

Value == BlocksOf(ivs)

Init == ivs = <<>>

Set(S, op, arg) == /\ ivs' = Canon(S)
                   /\ Observe(ivs, op, arg, Canon(S))

Add(lo, hi) == Set(Value \cup (lo..hi), "add", <<<<First(lo), Last(hi)>>>>)
AddSet(T) == Set(Value \cup T, "add_set", Canon(T))
Remove(T) == Set(Value \ T, "remove", Canon(T))
Intersect(T) == Set(Value \cap T, "intersect", Canon(T))
Invert == Set(Blocks \ Value, "inverted", <<>>)

Next ==
  \/ \E lo \in Blocks : \E hi \in lo..NB : Add(lo, hi)
  \/ \E T \in SUBSET Blocks : AddSet(T) \/ Remove(T) \/ Intersect(T)
  \/ Invert

Spec == Init /\ [][Next]_vars

(***************************************************************************)
(* Properties.                                                             *)
(***************************************************************************)
RepInv == WellFormed(ivs) /\ Canon(Value) = ivs
\* the number of intervals of the complement, as inverted_interval_count computes it
InvertedCount == Len(Canon(Blocks \ Value))
\* algebra: complement is an involution; remove is intersection with the complement
Laws ==
  /\ Canon(Blocks \ (Blocks \ Value)) = ivs
  /\ \A T \in SUBSET Blocks : Canon(Value \ T) = Canon(Value \cap (Blocks \ T))
=============================================================================
