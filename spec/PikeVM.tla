-------------------------------- MODULE PikeVM --------------------------------
(***************************************************************************)
(* The "Pike VM" executor (src/pikevm.rs) as a deterministic state         *)
(* machine over dumped programs: a stack of cloned thread states explored  *)
(* depth first.  One Step is one call of try_match_state on the top        *)
(* thread.  A look-around runs a nested attempt on a fresh stack (a frame).*)
(*                                                                         *)
(* State: [threads, fwd, frames, status, steps, result]                    *)
(*   thread = [ip, pos, l1, loops, groups]   (l1 = loop1_iters)            *)
(*   frames = suspended outer levels [threads, fwd, lip]                   *)
(***************************************************************************)
EXTENDS Bytecode

CONSTANT Dev

PTop(s) == s.threads[Len(s.threads)]
SetTop(s, t) == [s EXCEPT !.threads[Len(s.threads)] = t]

PInitThread(P, p) ==
  [ip |-> 0, pos |-> p, l1 |-> 0,
   loops |-> [i \in 1..P.loops |-> [iters |-> 0, entry |-> p]],
   groups |-> [g \in 1..P.groups |-> GNone]]

PInitState(P, p) ==
  [threads |-> <<PInitThread(P, p)>>, fwd |-> TRUE, frames |-> <<>>, status |-> "run", steps |-> 0,
   result |-> PInitThread(P, p)]

\* run_loop of pikevm.rs: <<kind, thread, new thread>>, kind \in {"Fail","Cont","Split"}.
PRunLoop(t0, lf, initial) ==
  LET ld0 == t0.loops[lf.id + 1]
      iters == IF initial THEN 0 ELSE ld0.iters + 1
      enterOk == IF initial THEN (lf.max = -1 \/ lf.max > 0) ELSE (lf.max = -1 \/ iters < lf.max)
      skipOk == IF initial THEN lf.min = 0 ELSE iters >= lf.min
      emptyStop == ~initial /\ iters > lf.min /\ ld0.entry = t0.pos
      t1 == [t0 EXCEPT !.loops[lf.id + 1] = [iters |-> iters, entry |-> t0.pos], !.ip = @ + 1]
  IN IF emptyStop THEN <<"Fail", t0, t0>>
     ELSE IF ~enterOk /\ ~skipOk THEN <<"Fail", t0, t0>>
     ELSE IF ~enterOk THEN <<"Cont", [t1 EXCEPT !.ip = lf.exit], t0>>
     ELSE IF ~skipOk THEN <<"Cont", t1, t0>>
     ELSE IF lf.greedy THEN <<"Split", [t1 EXCEPT !.ip = lf.exit], t1>>
     ELSE <<"Split", t1, [t1 EXCEPT !.ip = lf.exit]>>

\* try_match_state for every instruction except look-arounds and Goal.
PExec(P, B, t, fwd) ==
  LET insn == P.insns[t.ip + 1]
      pos == t.pos
      Adv(ok) == IF ok THEN <<"Cont", [t EXCEPT !.ip = @ + 1], t>> ELSE <<"Fail", t, t>>
  IN
  CASE IsScm(insn) ->
         LET np == Scm(P, insn, B, pos, fwd) IN
         IF np = None THEN <<"Fail", t, t>> ELSE <<"Cont", [t EXCEPT !.ip = @ + 1, !.pos = np], t>>
    [] insn.op = "WordBoundary" ->
         LET a == PeekLeft(B, pos)  b == PeekRight(B, pos)
             wa == IF insn.uicase THEN IsWordCpUI(a) ELSE IsWordCpBasic(a)
             wb == IF insn.uicase THEN IsWordCpUI(b) ELSE IsWordCpBasic(b)
         IN Adv((wa # wb) # insn.invert)
    [] insn.op = "StartOfLine" ->
         LET a == PeekLeft(B, pos) IN Adv(a = None \/ (insn.multiline /\ a \in LineTerminators))
    [] insn.op = "EndOfLine" ->
         LET b == PeekRight(B, pos) IN Adv(b = None \/ (insn.multiline /\ b \in LineTerminators))
    [] insn.op = "Jump" -> <<"Cont", [t EXCEPT !.ip = insn.target], t>>
    [] insn.op = "Alt" -> <<"Split", [t EXCEPT !.ip = insn.secondary], [t EXCEPT !.ip = @ + 1]>>
    [] insn.op = "BeginCG" ->
         <<"Cont", [t EXCEPT !.ip = @ + 1,
                      !.groups[insn.g + 1] = IF fwd THEN [@ EXCEPT !.s = pos] ELSE [@ EXCEPT !.e = pos]], t>>
    [] insn.op = "EndCG" ->
         <<"Cont", [t EXCEPT !.ip = @ + 1,
                      !.groups[insn.g + 1] = IF fwd THEN [@ EXCEPT !.e = pos] ELSE [@ EXCEPT !.s = pos]], t>>
    [] insn.op = "ResetCG" -> <<"Cont", [t EXCEPT !.ip = @ + 1, !.groups[insn.g + 1] = GNone], t>>
    [] insn.op = "BackRef" ->
         LET cg == t.groups[insn.g + 1] IN
         IF cg.s = None \/ cg.e = None THEN Adv(TRUE)
         ELSE LET np == IF insn.icase
                        THEN BackrefICase(B, cg.s, cg.e, pos, fwd, P.unicode, Dev, IF fwd THEN cg.s ELSE cg.e)
                        ELSE MatchBytes(B, pos, fwd, SubSeq(B, cg.s + 1, cg.e))
              IN IF np = None THEN <<"Fail", t, t>> ELSE <<"Cont", [t EXCEPT !.ip = @ + 1, !.pos = np], t>>
    [] insn.op = "EnterLoop" -> PRunLoop(t, insn, TRUE)
    [] insn.op = "LoopAgain" -> PRunLoop([t EXCEPT !.ip = insn.begin], P.insns[insn.begin + 1], FALSE)
    [] insn.op = "Loop1CharBody" ->
         LET body == P.insns[t.ip + 2]
             cont == t.ip + 2
             iters == t.l1
             taken == IF insn.max = -1 \/ iters < insn.max THEN Scm(P, body, B, pos, fwd) ELSE None
             exitT == [t EXCEPT !.ip = cont, !.l1 = 0]
             iterT == [t EXCEPT !.pos = taken, !.l1 = iters + 1]
         IN IF taken = None
            THEN (IF iters >= insn.min THEN <<"Cont", exitT, t>> ELSE <<"Fail", t, t>>)
            ELSE IF iters < insn.min THEN <<"Cont", iterT, t>>
            ELSE IF insn.greedy THEN <<"Split", exitT, iterT>>
            ELSE <<"Split", iterT, exitT>>
    [] insn.op = "JustFail" -> <<"Fail", t, t>>

RECURSIVE PDrop(_, _, _), PLeave(_, _, _, _, _)

\* The top thread failed: pop it; an empty stack ends the attempt of this level.
PDrop(P, B, s) ==
  LET s1 == [s EXCEPT !.threads = Front(@)] IN
  IF s1.threads # <<>> THEN s1
  ELSE IF s.frames = <<>> THEN [s1 EXCEPT !.status = "failed"]
  ELSE PLeave(P, B, s1, FALSE, PTop(s))

\* The nested attempt of a look-around ended (done = thread at Goal if matched).
PLeave(P, B, s, matched, done) ==
  LET fr == s.frames[Len(s.frames)]
      outer == fr.threads[Len(fr.threads)]        \* the thread that ran the look-around (ip already + 1)
      insn == P.insns[fr.lip + 1]
      s1 == [s EXCEPT !.frames = Front(@), !.threads = fr.threads, !.fwd = fr.fwd]
  IN IF matched # insn.negate
     THEN LET base == IF matched THEN done ELSE outer
          IN SetTop(s1, [base EXCEPT !.ip = insn.cont, !.pos = outer.pos])
     ELSE PDrop(P, B, s1)

PStep(P, B, s0) ==
  LET s == [s0 EXCEPT !.steps = @ + 1]
      t == PTop(s)
      insn == P.insns[t.ip + 1]
  IN
  IF insn.op = "Goal" THEN
       (IF s.frames = <<>> THEN [s EXCEPT !.status = "matched", !.result = t, !.threads = <<>>]
        ELSE PLeave(P, B, s, TRUE, t))
  ELSE IF insn.op = "Look" THEN
       LET t1 == [t EXCEPT !.ip = @ + 1] IN
       [s EXCEPT !.frames = Append(@, [threads |-> SetTop(s, t1).threads, fwd |-> s.fwd, lip |-> t.ip]),
                 !.threads = <<t1>>, !.fwd = ~insn.behind]
  ELSE LET r == PExec(P, B, t, s.fwd) IN
       CASE r[1] = "Fail" -> PDrop(P, B, s)
         [] r[1] = "Cont" -> SetTop(s, r[2])
         [] r[1] = "Split" -> [SetTop(s, r[2]) EXCEPT !.threads = Append(@, r[3])]

RECURSIVE PIterate(_, _, _, _)
PIterate(P, B, s, n) ==
  IF s.status # "run" THEN s
  ELSE IF n = 1 THEN PStep(P, B, s)
  ELSE PIterate(P, B, PIterate(P, B, s, n \div 2), n - (n \div 2))

PRunAll(P, B, s, fuel) ==
  LET f == PIterate(P, B, s, fuel) IN IF f.status = "run" THEN [f EXCEPT !.status = "fuel"] ELSE f

PResultOf(s, p) ==
  IF s.status # "matched" THEN <<>>
  ELSE << <<p, s.result.pos>> >> \o [g \in DOMAIN s.result.groups |->
          IF s.result.groups[g].s = None \/ s.result.groups[g].e = None THEN <<-1, -1>>
          ELSE <<s.result.groups[g].s, s.result.groups[g].e>>]

PPosInRange(B, s) == \A k \in DOMAIN s.threads : s.threads[k].pos >= 0 /\ s.threads[k].pos <= Len(B)
PPosOnBoundary(P, B, s) ==
  s.status = "run" => LET t == PTop(s) IN DecodesChar(P.insns[t.ip + 1]) => OnBoundary(B, t.pos)
PThreadCount(s) == Len(s.threads) + FoldLeft(LAMBDA acc, fr : acc + Len(fr.threads), 0, s.frames)
=============================================================================
