----------------------------- MODULE JudgeEscape -----------------------------
(* C18: judge `runner escape` records against Escape.tla. *)
EXTENDS Escape, TLC, Json, IOUtils

Obs == ndJsonDeserialize(IOEnv.OBS)
NObs == Len(Obs)
NCHAINS == 16
Min2(a, b) == IF a < b THEN a ELSE b

FlagRec(f) == Flags(f.i, f.m, f.s, f.u, f.v)

Mismatches(r) ==
  (IF OnlyInsertsBackslashes(r.e, r.s) THEN {}
   ELSE {[kind |-> "escape", id |-> r.rid, what |-> "escape changed more than backslashes", fl |-> "", h |-> 0,
          exp |-> r.s, got |-> r.e, dev |-> <<>>]})
  \cup UNION { LET res == r.res[k] IN
               IF ~res.ok
               THEN {[kind |-> "escape", id |-> r.rid, what |-> "escape(s) does not compile", fl |-> res.flags, h |-> 0,
                      exp |-> <<>>, got |-> <<>>, dev |-> <<>>]}
               ELSE { [kind |-> "escape", id |-> r.rid, what |-> "matches are not the occurrences of s", fl |-> res.flags,
                       h |-> hi - 1, exp |-> ExpectedMatches(r.s, r.hays[hi], FlagRec(res.fl)), got |-> res.m[hi],
                       dev |-> SetToSeq({d \in {"D8"} : ExpectedMatchesDev(r.s, r.hays[hi], FlagRec(res.fl), {d}) = res.m[hi]})] :
                        hi \in {x \in DOMAIN r.hays : res.m[x] # ExpectedMatches(r.s, r.hays[x], FlagRec(res.fl))} }
             : k \in DOMAIN r.res }

RECURSIVE TakeSome(_, _)
TakeSome(S, n) == IF n = 0 \/ S = {} THEN {} ELSE LET x == CHOOSE y \in S : TRUE IN {x} \cup TakeSome(S \ {x}, n - 1)

Report(r) ==
  LET mm == Mismatches(r)
  IN /\ \A m \in TakeSome(mm, 3) : PrintT("J " \o ToJson(m))
     /\ PrintT("J " \o ToJson([kind |-> "escapestat", id |-> r.rid, evals |-> Len(r.res) * Len(r.hays),
                               nontrivial |-> IF \E c \in DOMAIN r.s : r.e # r.s THEN 1 ELSE 0, mism |-> Cardinality(mm)]))

VARIABLE i
\* (the first state judges nothing: TLC evaluates initial states on a thread with a small stack)
Init == i = 0
Next == IF i = 0 THEN i' \in 1..Min2(NCHAINS, NObs) ELSE i + NCHAINS <= NObs /\ i' = i + NCHAINS
Judged == i = 0 \/ Report(Obs[i])
=============================================================================
