------------------------------ MODULE GenGrammar ------------------------------
(***************************************************************************)
(* C08/C07: enumerate every pattern string that is a sequence of at most   *)
(* MAXLEN tokens of a token alphabet, as a TLC state space (a state is a   *)
(* sequence of token indices, Next appends one token), and print for each  *)
(* the verdict of the ECMAScript grammar (ESGrammar.tla) in the three      *)
(* modes.  TOKENS: ndjson file, one token (array of code points) per line. *)
(***************************************************************************)
EXTENDS ESGrammar, TLC, Json, IOUtils

Tokens == ndJsonDeserialize(IOEnv.TOKENS)
NTok == Len(Tokens)
MaxLen == atoi(IOEnv.MAXLEN)
\* optional fixed wrapper around the enumerated token sequence
\* (WRAP: ndjson file with two lines, the prefix and the suffix)
Wrap == IF "WRAP" \in DOMAIN IOEnv THEN ndJsonDeserialize(IOEnv.WRAP) ELSE << <<>>, <<>> >>
Prefix == Wrap[1]
Suffix == Wrap[2]

RECURSIVE Flatten(_)
Flatten(ts) == IF ts = <<>> THEN <<>> ELSE Tokens[Head(ts)] \o Flatten(Tail(ts))

VARIABLE ts
Init == ts = <<>>
Next == Len(ts) < MaxLen /\ \E k \in 1..NTok : ts' = Append(ts, k)

Emit ==
  LET p == Prefix \o Flatten(ts) \o Suffix
  IN PrintT("J " \o ToJson([p |-> p, exp |-> <<Verdict(p, FALSE, FALSE), Verdict(p, TRUE, FALSE), Verdict(p, FALSE, TRUE)>>,
                             d14 |-> VerdictLegacyD14(p)]))
=============================================================================
