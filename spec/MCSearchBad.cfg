CONSTANT MaxLen = 3
CONSTANT RequireSound = FALSE
SPECIFICATION MCSpec
INVARIANT Leftmost
INVARIANT TriedIncreasing
INVARIANT NoneSkipped
PROPERTY Ends
CHECK_DEADLOCK FALSE
