----------------------------- MODULE JudgeReplace -----------------------------
(***************************************************************************)
(* C17: judge the outputs of replace / replace_all / replace_with /        *)
(* replace_all_with recorded by `runner replace` against Replace.tla.      *)
(* The match sequence is the one the engine's own find_iter yielded for    *)
(* the haystack (its correctness is C01/C09); what is judged here is that  *)
(* the outputs are the splice-and-expand of that sequence.                 *)
(***************************************************************************)
EXTENDS Replace, TLC, Json, IOUtils

Obs == ndJsonDeserialize(IOEnv.OBS)
NObs == Len(Obs)
NCHAINS == 16
Min2(a, b) == IF a < b THEN a ELSE b

\* closures used by the runner: identity (the match's own text) and a constant
ConstText == <<60, 233, 62>>     \* "<e-acute>"

Mismatches(r) ==
  UNION { LET h == r.hays[hi]
              ms == r.matches[hi]
              o == r.out[hi]
          IN { [kind |-> "replace", id |-> r.rid, h |-> hi - 1, tpl |-> r.templates[t], fn |-> "replace",
                exp |-> RegexReplaceFirst(h, ms, r.templates[t], r.names), got |-> o.replace[t]] :
                 t \in {x \in DOMAIN r.templates : o.replace[x] # RegexReplaceFirst(h, ms, r.templates[x], r.names)} }
             \cup
             { [kind |-> "replace", id |-> r.rid, h |-> hi - 1, tpl |-> r.templates[t], fn |-> "replace_all",
                exp |-> RegexReplaceAll(h, ms, r.templates[t], r.names), got |-> o.replace_all[t]] :
                 t \in {x \in DOMAIN r.templates : o.replace_all[x] # RegexReplaceAll(h, ms, r.templates[x], r.names)} }
             \cup
             { [kind |-> "replace", id |-> r.rid, h |-> hi - 1, tpl |-> <<>>, fn |-> c.fn, exp |-> c.exp, got |-> c.got] :
                 c \in { x \in { [fn |-> "replace_with(identity)", exp |-> h, got |-> o.with_identity],
                                 [fn |-> "replace_all_with(identity)", exp |-> h, got |-> o.all_with_identity],
                                 [fn |-> "replace_with(constant)", exp |-> ReplaceFirstBy(h, ms, [k \in DOMAIN ms |-> ConstText]), got |-> o.with_const],
                                 [fn |-> "replace_all_with(constant)", exp |-> ReplaceAllBy(h, ms, [k \in DOMAIN ms |-> ConstText]), got |-> o.all_with_const] }
                         : x.exp # x.got } }
        : hi \in DOMAIN r.hays }

RECURSIVE TakeSome(_, _)
TakeSome(S, n) == IF n = 0 \/ S = {} THEN {} ELSE LET x == CHOOSE y \in S : TRUE IN {x} \cup TakeSome(S \ {x}, n - 1)

Report(r) ==
  LET mm == Mismatches(r)
  IN /\ \A m \in TakeSome(mm, 3) : PrintT("J " \o ToJson(m))
     /\ PrintT("J " \o ToJson([kind |-> "replacestat", id |-> r.rid, outputs |-> Len(r.hays) * (2 * Len(r.templates) + 4),
                               withmatch |-> Cardinality({hi \in DOMAIN r.hays : r.matches[hi] # <<>>}) * 2 * Len(r.templates),
                               mism |-> Cardinality(mm)]))

VARIABLE i
\* (the first state judges nothing: TLC evaluates initial states on a thread with a small stack)
Init == i = 0
Next == IF i = 0 THEN i' \in 1..Min2(NCHAINS, NObs) ELSE i + NCHAINS <= NObs /\ i' = i + NCHAINS
Judged == i = 0 \/ Report(Obs[i])
=============================================================================
