-------------------------------- MODULE MCVM --------------------------------
(***************************************************************************)
(* Trace validation of the two executors (binding B3), with the machine    *)
(* specifications' real Step relations.                                    *)
(*                                                                         *)
(* Input TRACES: ndjson, one record per recorded run of the real engine:   *)
(*   prog (the dumped program), bytes (the haystack), engine "bt" | "pv",  *)
(*   ev = the events the hooks emitted, each <<kind, ip, pos, depth, fwd>>:*)
(*     0 = an attempt starts at pos          (top level only)              *)
(*     1 = an instruction is dispatched: ip, position, stack depth, dir    *)
(*     3 = the attempt ends; ip = 1 iff it matched, pos = end of the match *)
(* The machine runs in lock step: every dispatch event must show exactly   *)
(* the machine's ip, position, stack depth and direction, after which the  *)
(* machine takes its own Step.  So each recorded run is checked to be a    *)
(* behaviour of the specification, state by state, and the machine         *)
(* invariants are evaluated on every state of every run.                   *)
(* The attempt brackets are in addition validated against the search       *)
(* machine (Search.tla: Seek / Try): attempts start at or after the search *)
(* position, in increasing order, no offset the dumped start predicate     *)
(* admits is passed over, an anchored search makes its single attempt at   *)
(* the position given, after a match the search resumes at its end (one    *)
(* character further after an empty one), and when the record ends nothing *)
(* admitted is left unexamined.  The iterator keeps its position when a    *)
(* search finds nothing (exec.rs Matches::next leaves `position` as it     *)
(* was), so polling it again repeats the last search from the same place:  *)
(* a Repoll step.  A departure is printed as kind "search"                 *)
(* and the lock-step validation continues.                                 *)
(* A step the specification does not allow takes the run to "mismatch",    *)
(* prints what differed, and ends that run (other runs continue).          *)
(***************************************************************************)
EXTENDS Bytecode, TLC, Json, IOUtils

Traces == ndJsonDeserialize(IOEnv.TRACES)
NTr == Len(Traces)

BT == INSTANCE BacktrackVM WITH Dev <- {"D8"}
PV == INSTANCE PikeVM WITH Dev <- {"D8"}

VARIABLES k, l, vm, st, sr
vars == <<k, l, vm, st, sr>>

Idle == [status |-> "idle"]

\* the search machine: from = the byte offset the search stands at (Len+1: nothing left),
\* cursor = where the current next() call began, at = where the running attempt started,
\* bad = a departure was already reported
Init == k \in 1..NTr /\ l = 1 /\ vm = Idle /\ st = "ok" /\ sr = [from |-> 0, cursor |-> 0, at |-> -1, bad |-> FALSE]

T == Traces[k]
P == T.prog
B == T.bytes
IsBT == T.engine = "bt"

\* what the machine shows at a dispatch
Shown(m) ==
  IF IsBT THEN [ip |-> m.ip, pos |-> m.pos, depth |-> Len(m.bts), fwd |-> m.fwd]
  ELSE LET t == PV!PTop(m) IN [ip |-> t.ip, pos |-> t.pos, depth |-> Len(m.threads), fwd |-> m.fwd]

Agrees(m, e) ==
  /\ m.status = "run"
  /\ LET sh == Shown(m) IN sh.ip = e[2] /\ sh.pos = e[3] /\ sh.depth = e[4] /\ sh.fwd = (e[5] = 1)

EndPos(m) == IF IsBT THEN m.pos ELSE m.result.pos

\* Facts about a recorded event that must hold whatever the machine says (C06).
EventOk(e) ==
  /\ e[3] >= 0 /\ e[3] <= Len(B)
  /\ e[1] = 1 => (e[2] < Len(P.insns) /\ (DecodesChar(P.insns[e[2] + 1]) => OnBoundary(B, e[3])))
  /\ e[1] = 0 => OnBoundary(B, e[3])
  \* the position left behind by a failed attempt is unspecified (byte-level matchers may stop
  \* inside a sequence); the end of a successful one is a boundary
  /\ (e[1] = 3 /\ e[2] = 1) => OnBoundary(B, e[3])

SAdmits(sp, p) ==
  CASE sp.kind = "Arbitrary" -> TRUE
    [] sp.kind = "ByteSet" -> p < Len(B) /\ InSeq(sp.bytes, B[p + 1])
    [] sp.kind = "ByteSeq" -> p + Len(sp.bytes) <= Len(B) /\ SubSeq(B, p + 1, p + Len(sp.bytes)) = sp.bytes
    [] sp.kind = "StartAnchored" -> p = 0
Anchored == P.start_pred.kind = "StartAnchored"
RECURSIVE NextBoundary(_)
\* the next character boundary after byte offset p (Len+1 when there is none)
NextBoundary(p) == IF p >= Len(B) THEN Len(B) + 1 ELSE IF OnBoundary(B, p + 1) THEN p + 1 ELSE NextBoundary(p + 1)
\* Try at p is a step of the search machine standing at `from`
TryOk(from, p) ==
  /\ p >= from
  /\ IF Anchored THEN p = from
     ELSE \A q \in from..(p - 1) : OnBoundary(B, q) => ~SAdmits(P.start_pred, q)
\* nothing admitted is left when the record ends
RestOk(from) == from > Len(B) \/ (~Anchored /\ \A q \in from..Len(B) : OnBoundary(B, q) => ~SAdmits(P.start_pred, q))
SearchNote(why, e) ==
  PrintT("J " \o ToJson([kind |-> "search", id |-> T.rid, h |-> T.h, var |-> T.var, at |-> l, why |-> why,
                          event |-> e, from |-> sr.from, pred |-> P.start_pred]))

Mismatch(why, e) ==
  /\ st' = "mismatch"
  /\ PrintT("J " \o ToJson([kind |-> "trace", id |-> T.rid, h |-> T.h, var |-> T.var, at |-> l, why |-> why,
                            event |-> e,
                            model |-> IF vm.status \in {"idle", "matched", "failed"} THEN <<vm.status>>
                                      ELSE LET sh == Shown(vm) IN <<vm.status, sh.ip, sh.pos, sh.depth, sh.fwd>>]))
  /\ UNCHANGED <<k, vm, sr>> /\ l' = l

Consume ==
  /\ st = "ok" /\ l <= Len(T.ev)
  /\ LET e == T.ev[l] IN
     IF ~EventOk(e) THEN
        /\ PrintT("J " \o ToJson([kind |-> "event", id |-> T.rid, h |-> T.h, var |-> T.var, at |-> l, event |-> e]))
        /\ st' = "badevent" /\ UNCHANGED <<k, l, vm, sr>>
     ELSE
     CASE e[1] = 0 ->
            IF vm.status \in {"idle", "matched", "failed"} /\ e[2] = 0
            THEN /\ vm' = IF IsBT THEN BT!InitState(P, e[3]) ELSE PV!PInitState(P, e[3])
                 /\ l' = l + 1 /\ UNCHANGED <<k, st>>
                 /\ LET repoll == RestOk(sr.from) /\ TryOk(sr.cursor, e[3])      \* the exhausted search is repeated
                        ok == sr.bad \/ TryOk(sr.from, e[3]) \/ repoll IN
                    /\ IF ok THEN TRUE ELSE SearchNote("the attempt is not a step of the search machine", e)
                    /\ sr' = [sr EXCEPT !.at = e[3], !.bad = ~ok \/ sr.bad]
            ELSE Mismatch("attempt started while the machine was running", e)
       [] e[1] = 1 ->
            IF vm.status = "run" /\ Agrees(vm, e)
            THEN /\ vm' = IF IsBT THEN BT!Step(P, B, vm) ELSE PV!PStep(P, B, vm)
                 /\ l' = l + 1 /\ UNCHANGED <<k, st, sr>>
            ELSE Mismatch("dispatch differs from the machine", e)
       [] e[1] = 3 ->
            IF /\ vm.status \in {"matched", "failed"}
               /\ (e[2] = 1) = (vm.status = "matched")
               /\ (vm.status = "matched" => EndPos(vm) = e[3])
            THEN /\ l' = l + 1 /\ UNCHANGED <<k, vm, st>>
                 \* the search resumes: after a match at its end (one character further after an empty
                 \* one), after a failure one character after the attempt (never, if anchored)
                 /\ LET nx == IF e[3] = sr.at THEN NextBoundary(e[3]) ELSE e[3] IN
                    sr' = IF e[2] = 1 THEN [sr EXCEPT !.from = nx, !.cursor = nx]
                          ELSE [sr EXCEPT !.from = IF Anchored THEN Len(B) + 1 ELSE NextBoundary(sr.at)]
            ELSE Mismatch("attempt outcome differs from the machine", e)

Finish ==
  /\ st = "ok" /\ l = Len(T.ev) + 1
  /\ st' = "done"
  /\ IF sr.bad \/ RestOk(sr.from) THEN TRUE ELSE SearchNote("the record ends with admitted offsets unexamined", <<>>)
  /\ PrintT("J " \o ToJson([kind |-> "tracestat", id |-> T.rid, h |-> T.h, var |-> T.var, events |-> Len(T.ev)]))
  /\ UNCHANGED <<k, l, vm, sr>>

Next == Consume \/ Finish
Spec == Init /\ [][Next]_vars

(***************************************************************************)
(* Invariants evaluated on every state of every validated run.             *)
(***************************************************************************)
Running == vm.status = "run"
PosInRangeInv == Running => IF IsBT THEN BT!PosInRange(B, vm) ELSE PV!PPosInRange(B, vm)
PosOnBoundaryInv == Running => IF IsBT THEN BT!PosOnBoundary(P, B, vm) ELSE PV!PPosOnBoundary(P, B, vm)
IpInRangeInv == Running /\ IsBT => BT!IpInRange(P, vm)
GroupsInv == (IsBT /\ vm.status = "matched") => BT!GroupsWellFormed(B, vm)
\* the stack never outgrows the number of steps taken (each step pushes a bounded number of records)
StackBoundInv ==
  Running => IF IsBT THEN BT!StackDepth(vm) <= 2 + (3 + P.groups) * vm.steps
             ELSE PV!PThreadCount(vm) <= 2 + vm.steps
=============================================================================
