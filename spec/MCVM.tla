-------------------------------- MODULE MCVM --------------------------------
(***************************************************************************)
(* Trace validation of the two executors (binding B3), with the machine    *)
(* specifications' real Step relations.                                    *)
(*                                                                         *)
(* Input TRACES: ndjson, one record per recorded run of the real engine:   *)
(*   prog (the dumped program), bytes (the haystack), engine "bt" | "pv",  *)
(*   ev = the events the hooks emitted, each <<kind, ip, pos, depth, fwd>>:*)
(*     0 = an attempt starts at pos          (top level only)              *)
(*     1 = an instruction is dispatched: ip, position, stack depth, dir    *)
(*     3 = the attempt ends; ip = 1 iff it matched, pos = end of the match *)
(* The machine runs in lock step: every dispatch event must show exactly   *)
(* the machine's ip, position, stack depth and direction, after which the  *)
(* machine takes its own Step.  So each recorded run is checked to be a    *)
(* behaviour of the specification, state by state, and the machine         *)
(* invariants are evaluated on every state of every run.                   *)
(* A step the specification does not allow takes the run to "mismatch",    *)
(* prints what differed, and ends that run (other runs continue).          *)
(***************************************************************************)
EXTENDS Bytecode, TLC, Json, IOUtils

Traces == ndJsonDeserialize(IOEnv.TRACES)
NTr == Len(Traces)

BT == INSTANCE BacktrackVM WITH Dev <- {"D8"}
PV == INSTANCE PikeVM WITH Dev <- {"D8"}

VARIABLES k, l, vm, st
vars == <<k, l, vm, st>>

Idle == [status |-> "idle"]

Init == k \in 1..NTr /\ l = 1 /\ vm = Idle /\ st = "ok"

T == Traces[k]
P == T.prog
B == T.bytes
IsBT == T.engine = "bt"

\* what the machine shows at a dispatch
Shown(m) ==
  IF IsBT THEN [ip |-> m.ip, pos |-> m.pos, depth |-> Len(m.bts), fwd |-> m.fwd]
  ELSE LET t == PV!PTop(m) IN [ip |-> t.ip, pos |-> t.pos, depth |-> Len(m.threads), fwd |-> m.fwd]

Agrees(m, e) ==
  /\ m.status = "run"
  /\ LET sh == Shown(m) IN sh.ip = e[2] /\ sh.pos = e[3] /\ sh.depth = e[4] /\ sh.fwd = (e[5] = 1)

EndPos(m) == IF IsBT THEN m.pos ELSE m.result.pos

\* Facts about a recorded event that must hold whatever the machine says (C06).
EventOk(e) ==
  /\ e[3] >= 0 /\ e[3] <= Len(B)
  /\ e[1] = 1 => (e[2] < Len(P.insns) /\ (DecodesChar(P.insns[e[2] + 1]) => OnBoundary(B, e[3])))
  /\ e[1] = 0 => OnBoundary(B, e[3])
  \* the position left behind by a failed attempt is unspecified (byte-level matchers may stop
  \* inside a sequence); the end of a successful one is a boundary
  /\ (e[1] = 3 /\ e[2] = 1) => OnBoundary(B, e[3])

Mismatch(why, e) ==
  /\ st' = "mismatch"
  /\ PrintT("J " \o ToJson([kind |-> "trace", id |-> T.rid, h |-> T.h, var |-> T.var, at |-> l, why |-> why,
                            event |-> e,
                            model |-> IF vm.status \in {"idle", "matched", "failed"} THEN <<vm.status>>
                                      ELSE LET sh == Shown(vm) IN <<vm.status, sh.ip, sh.pos, sh.depth, sh.fwd>>]))
  /\ UNCHANGED <<k, vm>> /\ l' = l

Consume ==
  /\ st = "ok" /\ l <= Len(T.ev)
  /\ LET e == T.ev[l] IN
     IF ~EventOk(e) THEN
        /\ PrintT("J " \o ToJson([kind |-> "event", id |-> T.rid, h |-> T.h, var |-> T.var, at |-> l, event |-> e]))
        /\ st' = "badevent" /\ UNCHANGED <<k, l, vm>>
     ELSE
     CASE e[1] = 0 ->
            IF vm.status \in {"idle", "matched", "failed"} /\ e[2] = 0
            THEN /\ vm' = IF IsBT THEN BT!InitState(P, e[3]) ELSE PV!PInitState(P, e[3])
                 /\ l' = l + 1 /\ UNCHANGED <<k, st>>
            ELSE Mismatch("attempt started while the machine was running", e)
       [] e[1] = 1 ->
            IF vm.status = "run" /\ Agrees(vm, e)
            THEN /\ vm' = IF IsBT THEN BT!Step(P, B, vm) ELSE PV!PStep(P, B, vm)
                 /\ l' = l + 1 /\ UNCHANGED <<k, st>>
            ELSE Mismatch("dispatch differs from the machine", e)
       [] e[1] = 3 ->
            IF /\ vm.status \in {"matched", "failed"}
               /\ (e[2] = 1) = (vm.status = "matched")
               /\ (vm.status = "matched" => EndPos(vm) = e[3])
            THEN l' = l + 1 /\ UNCHANGED <<k, vm, st>>
            ELSE Mismatch("attempt outcome differs from the machine", e)

Finish ==
  /\ st = "ok" /\ l = Len(T.ev) + 1
  /\ st' = "done"
  /\ PrintT("J " \o ToJson([kind |-> "tracestat", id |-> T.rid, h |-> T.h, var |-> T.var, events |-> Len(T.ev)]))
  /\ UNCHANGED <<k, l, vm>>

Next == Consume \/ Finish
Spec == Init /\ [][Next]_vars

(***************************************************************************)
(* Invariants evaluated on every state of every validated run.             *)
(***************************************************************************)
Running == vm.status = "run"
PosInRangeInv == Running => IF IsBT THEN BT!PosInRange(B, vm) ELSE PV!PPosInRange(B, vm)
PosOnBoundaryInv == Running => IF IsBT THEN BT!PosOnBoundary(P, B, vm) ELSE PV!PPosOnBoundary(P, B, vm)
IpInRangeInv == Running /\ IsBT => BT!IpInRange(P, vm)
GroupsInv == (IsBT /\ vm.status = "matched") => BT!GroupsWellFormed(B, vm)
\* the stack never outgrows the number of steps taken (each step pushes a bounded number of records)
StackBoundInv ==
  Running => IF IsBT THEN BT!StackDepth(vm) <= 2 + (3 + P.groups) * vm.steps
             ELSE PV!PThreadCount(vm) <= 2 + vm.steps
=============================================================================
