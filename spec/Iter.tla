-------------------------------- MODULE Iter --------------------------------
(***************************************************************************)
(* C09: the match iterator (exec.rs Matches) as a state machine.           *)
(*                                                                         *)
(* Per run: hlen, the haystack length in characters; att, what an anchored *)
(* attempt yields at each position 0..hlen (its end, or None).  The        *)
(* iterator holds a cursor (None once exhausted).  next() reports the      *)
(* first position >= cursor at which an attempt succeeds, and moves the    *)
(* cursor to the end of a non-empty match and one character past an empty  *)
(* one (the lastIndex rule); when no position is left it returns None and   *)
(* stays there.  (The code keeps its position when a search finds nothing  *)
(* and repeats that search when polled again, with the same outcome: the   *)
(* same observable behaviour; MCVM's Repoll step follows the code there,   *)
(* and Search.tla refines FirstFrom into prefix-search and attempt steps.) *)
(***************************************************************************)
EXTENDS Naturals, Integers, Sequences

None == -1

VARIABLES hlen, att, cursor, emitted, polls
vars == <<hlen, att, cursor, emitted, polls>>

InitWith(L, A, start) ==
  /\ hlen = L /\ att = A
  /\ cursor = IF start > L THEN None ELSE start      \* a start beyond the end yields nothing
  /\ emitted = <<>> /\ polls = 0

\* the first position >= c where an attempt succeeds, or None
RECURSIVE FirstFrom(_, _, _)
FirstFrom(A, L, c) == IF c > L THEN None ELSE IF A[c + 1] # None THEN c ELSE FirstFrom(A, L, c + 1)

NextCall ==
  /\ polls' = polls + 1
  /\ UNCHANGED <<hlen, att>>
  /\ IF cursor = None THEN UNCHANGED <<cursor, emitted>>
     ELSE LET s == FirstFrom(att, hlen, cursor) IN
          IF s = None THEN cursor' = None /\ UNCHANGED emitted
          ELSE LET e == att[s + 1] IN
               /\ emitted' = Append(emitted, <<s, e>>)
               /\ cursor' = IF e = s THEN (IF e + 1 > hlen THEN None ELSE e + 1) ELSE e

\* the contract
Increasing == \A k \in 1..(Len(emitted) - 1) : emitted[k][1] < emitted[k + 1][1] /\ emitted[k][2] <= emitted[k + 1][1]
Bounded == Len(emitted) <= hlen + 1
InRange == \A k \in DOMAIN emitted : 0 <= emitted[k][1] /\ emitted[k][1] <= emitted[k][2] /\ emitted[k][2] <= hlen
Fused == [][cursor = None => cursor' = None /\ emitted' = emitted]_vars
Exhausts == <>(cursor = None)
=============================================================================
