------------------------------ MODULE Bytecode ------------------------------
(***************************************************************************)
(* The byte-level input model and the single-character matchers shared by  *)
(* the two machine specifications.  Programs are the records dumped by the *)
(* hook Regex::verif_program_json (instruction names as in src/insn.rs;    *)
(* ByteSet2..4 and AsciiBracket appear as "ByteSet", ByteSeq1..16 as       *)
(* "ByteSeq", Lookahead/Lookbehind as "Look", the two word-boundary        *)
(* instructions as "WordBoundary" with a uicase field).                    *)
(*                                                                         *)
(* Positions are byte offsets 0..Len(B) into the UTF-8 bytes B of the      *)
(* haystack.  Instruction pointers are 0-based as in the dump, so the      *)
(* instruction at ip is P.insns[ip + 1].                                   *)
(***************************************************************************)
EXTENDS Alphabet, SequencesExt

None == -1

IsCont(b) == b >= 128 /\ b < 192
SeqLen(b0) == IF b0 < 128 THEN 1 ELSE IF b0 >= 240 THEN 4 ELSE IF b0 >= 224 THEN 3 ELSE 2

\* A position is on a character boundary iff it is an end or not a continuation byte.
OnBoundary(B, p) == p = 0 \/ p = Len(B) \/ (p > 0 /\ p < Len(B) /\ ~IsCont(B[p + 1]))

Decode(B, p, n) ==
  CASE n = 1 -> B[p + 1]
    [] n = 2 -> (B[p + 1] - 192) * 64 + (B[p + 2] - 128)
    [] n = 3 -> (B[p + 1] - 224) * 4096 + (B[p + 2] - 128) * 64 + (B[p + 3] - 128)
    [] n = 4 -> (B[p + 1] - 240) * 262144 + (B[p + 2] - 128) * 4096 + (B[p + 3] - 128) * 64 + (B[p + 4] - 128)

\* <<code point, new position>> or <<>> at the end of input.
NextRight(B, p) == IF p >= Len(B) THEN <<>> ELSE LET n == SeqLen(B[p + 1]) IN <<Decode(B, p, n), p + n>>
LeftLen(B, p) ==
  IF ~IsCont(B[p]) THEN 1 ELSE IF ~IsCont(B[p - 1]) THEN 2 ELSE IF ~IsCont(B[p - 2]) THEN 3 ELSE 4
NextLeft(B, p) == IF p <= 0 THEN <<>> ELSE LET n == LeftLen(B, p) IN <<Decode(B, p - n, n), p - n>>
NextCp(B, p, fwd) == IF fwd THEN NextRight(B, p) ELSE NextLeft(B, p)
PeekRight(B, p) == LET r == NextRight(B, p) IN IF r = <<>> THEN None ELSE r[1]
PeekLeft(B, p) == LET r == NextLeft(B, p) IN IF r = <<>> THEN None ELSE r[1]

InIvs(ivs, c) == \E k \in DOMAIN ivs : ivs[k][1] <= c /\ c <= ivs[k][2]
InSeq(xs, c) == \E k \in DOMAIN xs : xs[k] = c

\* byte moves: new position or None
NextByteIn(B, p, fwd, bytes) ==
  IF fwd THEN (IF p < Len(B) /\ InSeq(bytes, B[p + 1]) THEN p + 1 ELSE None)
  ELSE (IF p > 0 /\ InSeq(bytes, B[p]) THEN p - 1 ELSE None)
MatchBytes(B, p, fwd, bytes) ==
  LET n == Len(bytes) IN
  IF fwd THEN (IF p + n <= Len(B) /\ SubSeq(B, p + 1, p + n) = bytes THEN p + n ELSE None)
  ELSE (IF p - n >= 0 /\ SubSeq(B, p - n + 1, p) = bytes THEN p - n ELSE None)

IsScm(insn) ==
  insn.op \in {"ByteSeq", "ByteSet", "Char", "CharSet", "Bracket", "MatchAny", "MatchAnyExceptLT"}
\* Instructions that decode a character and therefore require a boundary position.
DecodesChar(insn) ==
  insn.op \in {"Char", "CharSet", "Bracket", "MatchAny", "MatchAnyExceptLT", "WordBoundary",
               "StartOfLine", "EndOfLine"}

\* A single-character matcher: the new position or None.
Scm(P, insn, B, p, fwd) ==
  CASE insn.op = "ByteSeq" -> MatchBytes(B, p, fwd, insn.bytes)
    [] insn.op = "ByteSet" -> NextByteIn(B, p, fwd, insn.bytes)
    [] OTHER ->
       LET r == NextCp(B, p, fwd) IN
       IF r = <<>> THEN None
       ELSE LET c == r[1]
                ok == CASE insn.op = "Char" -> c = insn.c
                        [] insn.op = "CharSet" -> InSeq(insn.chars, c)
                        [] insn.op = "Bracket" ->
                             LET bc == P.brackets[insn.idx + 1] IN InIvs(bc.ivs, c) # bc.invert
                        [] insn.op = "MatchAny" -> TRUE
                        [] insn.op = "MatchAnyExceptLT" -> c \notin LineTerminators
            IN IF ok THEN r[2] ELSE None

RECURSIVE ScmRepeat(_, _, _, _, _, _)
\* Match up to n times (n = -1: unbounded); <<count, position>>.
ScmRepeat(P, insn, B, p, fwd, n) ==
  IF n = 0 THEN <<0, p>>
  ELSE LET np == Scm(P, insn, B, p, fwd) IN
       IF np = None THEN <<0, p>>
       ELSE LET r == ScmRepeat(P, insn, B, np, fwd, IF n = -1 THEN -1 ELSE n - 1) IN <<r[1] + 1, r[2]>>

\* Case-insensitive comparison as the executors apply it to backreferences:
\* fold_equals(c1, c2) == c1 = c2 \/ fold(c1) = fold(c2), fold being Canonicalize.
FoldEq(c1, c2, uni, dev) ==
  c1 = c2 \/ Canon(c1, TRUE, uni) = Canon(c2, TRUE, uni)

RECURSIVE BackrefICase(_, _, _, _, _, _, _, _)
\* Walk the captured range [rs, re) and the input in direction fwd, comparing folded
\* characters; the new position or None.
BackrefICase(B, rs, re, p, fwd, uni, dev, rp) ==
  \* rp: cursor inside the captured range (starts at rs forwards, at re backwards)
  IF (fwd /\ rp >= re) \/ (~fwd /\ rp <= rs) THEN p
  ELSE LET a == NextCp(B, rp, fwd)
           b == NextCp(B, p, fwd)
       IN IF b = <<>> THEN None
          ELSE IF FoldEq(a[1], b[1], uni, dev)
               THEN BackrefICase(B, rs, re, b[2], fwd, uni, dev, a[2])
               ELSE None

IsWordCpBasic(c) == c # None /\ IsBasicWordCp(c)
IsWordCpUI(c) == c # None /\ (IsBasicWordCp(c) \/ c = 383 \/ c = 8490)

GNone == [s |-> None, e |-> None]
=============================================================================
