-------------------------------- MODULE Fold --------------------------------
(***************************************************************************)
(* C10: case-insensitive matching is one relation.                         *)
(*                                                                         *)
(* Two code points are interchangeable under the i flag exactly when their *)
(* canonical forms are equal: simple case folding with u or v, the legacy  *)
(* rule (toUpperCase unless multi-character or non-ASCII to ASCII) without.*)
(* The relation is given by its non-trivial classes (CONSTANTS, loaded     *)
(* from the oracle file for the sweeps over all code points; the same      *)
(* relation restricted to the model alphabet is Alphabet.tla's Canon).     *)
(*                                                                         *)
(* Every mechanism of the engine must induce this one relation:            *)
(*   literal      /c/i matches d            iff Related(c, d)              *)
(*   class        /[c]/i matches d          iff Related(c, d)              *)
(*   complement   /[^c]/i rejects d         iff Related(c, d)              *)
(*   backref      /(.)\1/i matches c d      iff Related(c, d)  (both       *)
(*                directions)                                              *)
(*   closure      Closure(S) = the union of the classes of S's members     *)
(*   word         \w, [\w], \b see WordChars                               *)
(***************************************************************************)
EXTENDS Naturals, FiniteSets, Sequences

CONSTANTS ScfClasses,      \* set of the non-trivial simple-case-folding classes (sets of code points)
          LegacyClasses    \* the same for the legacy Canonicalize

ClassIn(Classes, c) ==
  LET hit == {cl \in Classes : c \in cl} IN IF hit = {} THEN {c} ELSE CHOOSE cl \in hit : TRUE

ClassOf(uni, c) == IF uni THEN ClassIn(ScfClasses, c) ELSE ClassIn(LegacyClasses, c)

Related(uni, c, d) == d \in ClassOf(uni, c)

Closure(uni, S) == S \cup UNION {cl \in (IF uni THEN ScfClasses ELSE LegacyClasses) : cl \cap S # {}}

BasicWord == (97..122) \cup (65..90) \cup (48..57) \cup {95}
\* WordCharacters(rer): the basic word characters and every character whose canonical form is one
WordChars(icase, uni) ==
  IF icase THEN BasicWord \cup {c \in Closure(uni, BasicWord) : TRUE} ELSE BasicWord

\* The relation is an equivalence by construction (classes are disjoint); sanity checked by TLC.
ClassesDisjoint(Cs) == \A a \in Cs : \A b \in Cs : a = b \/ a \cap b = {}
=============================================================================
