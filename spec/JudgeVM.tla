------------------------------- MODULE JudgeVM -------------------------------
(***************************************************************************)
(* Model checking the real bytecode, in bulk (binding B4).                 *)
(* Input OBS: one record per pattern case from `runner sem --progs`, with  *)
(* the programs the real compiler produced (optimizing and no_opt          *)
(* pipelines), the haystacks, and the first match the real backtracker     *)
(* returned from offset 0 (bfirst, byte offsets).                          *)
(* For every program and haystack the two machine specifications are run   *)
(* to completion from every character boundary in increasing order, and    *)
(*     BacktrackVM(P, h) = PikeVM(P, h) = observed first match             *)
(* is checked, together with the machines' own invariants at their final   *)
(* states and the step/stack bounds relative to each other.                *)
(***************************************************************************)
EXTENDS Bytecode, TLC, Json, IOUtils

Obs == ndJsonDeserialize(IOEnv.OBS)
NObs == Len(Obs)
NCHAINS == 16
Fuel == 20000

BT == INSTANCE BacktrackVM WITH Dev <- {"D8"}
PV == INSTANCE PikeVM WITH Dev <- {"D8"}

Min2(a, b) == IF a < b THEN a ELSE b

RECURSIVE SearchBT(_, _, _, _), SearchPV(_, _, _, _)
\* The leftmost search: attempts at successive character boundaries.
\* Result: [res |-> match or <<>>, steps, maxd, bad |-> set of invariant names violated]
SearchBT(P, B, p, acc) ==
  LET f == BT!RunAll(P, B, BT!InitState(P, p), Fuel)
      bad == (IF BT!PosInRange(B, f) THEN {} ELSE {"PosInRange"})
               \cup (IF BT!GroupsWellFormed(B, f) THEN {} ELSE {"GroupsWellFormed"})
               \cup (IF f.status = "fuel" THEN {"Fuel"} ELSE {})
      acc2 == [steps |-> acc.steps + f.steps, bad |-> acc.bad \cup bad]
  IN IF f.status = "matched" THEN [res |-> BT!ResultOf(f, p), steps |-> acc2.steps, bad |-> acc2.bad]
     ELSE LET nx == NextRight(B, p) IN
          IF nx = <<>> THEN [res |-> <<>>, steps |-> acc2.steps, bad |-> acc2.bad]
          ELSE SearchBT(P, B, nx[2], acc2)

SearchPV(P, B, p, acc) ==
  LET f == PV!PRunAll(P, B, PV!PInitState(P, p), Fuel)
      bad == (IF PV!PPosInRange(B, f) THEN {} ELSE {"PosInRange"})
               \cup (IF f.status = "fuel" THEN {"Fuel"} ELSE {})
      acc2 == [steps |-> acc.steps + f.steps, bad |-> acc.bad \cup bad]
  IN IF f.status = "matched" THEN [res |-> PV!PResultOf(f, p), steps |-> acc2.steps, bad |-> acc2.bad]
     ELSE LET nx == NextRight(B, p) IN
          IF nx = <<>> THEN [res |-> <<>>, steps |-> acc2.steps, bad |-> acc2.bad]
          ELSE SearchPV(P, B, nx[2], acc2)

Acc0 == [steps |-> 0, bad |-> {}]

JudgeHay(r, hi, which) ==
  LET P == r.progs[which]
      B == Utf8Seq(r.hays[hi])
      bt == SearchBT(P, B, 0, Acc0)
      pv == SearchPV(P, B, 0, Acc0)
      obs == r.bfirst[hi]
      \* A machine run that spends its fuel decides nothing when the search is legitimately long (an
      \* exponential search on a long haystack needs more steps than TLC is given here; whether the
      \* *engine* terminates is C05's question): that machine's result is then not compared.  But the
      \* machine's search is a part of the engine's whole iteration from offset 0, whose steps the hook
      \* counted (esteps: bt_opt, depth, pv_opt, depth, bt_noopt, depth, pv_noopt, depth; -1 = did not
      \* finish): a machine that spends more fuel than the engine took altogether has left the engine's
      \* behaviour, and that is reported.
      es == IF "esteps" \in DOMAIN r /\ Len(r.esteps) = Len(r.hays) THEN r.esteps[hi] ELSE <<-1, -1, -1, -1, -1, -1, -1, -1>>
      ebt == IF which = "opt" THEN es[1] ELSE es[5]
      epv == IF which = "opt" THEN es[3] ELSE es[7]
      btout == "Fuel" \in bt.bad /\ ~(ebt >= 0 /\ ebt < Fuel)
      pvout == "Fuel" \in pv.bad /\ ~(epv >= 0 /\ epv < Fuel)
  IN [bt |-> bt, pv |-> pv, obs |-> obs, fuelouts |-> (IF btout THEN 1 ELSE 0) + (IF pvout THEN 1 ELSE 0),
      ok |-> (btout \/ (bt.res = obs /\ "Fuel" \notin bt.bad)) /\ (pvout \/ (pv.res = obs /\ "Fuel" \notin pv.bad))
             /\ bt.bad \ {"Fuel"} = {} /\ pv.bad \ {"Fuel"} = {}]

Mismatches(r) ==
  UNION { { [kind |-> "vm", id |-> r.rid, h |-> hi - 1, prog |-> which,
             bt |-> j.bt.res, pv |-> j.pv.res, obs |-> j.obs,
             bad |-> SetToSeq(j.bt.bad \cup j.pv.bad)] :
              j \in {JudgeHay(r, hi, which)} \ {x \in {JudgeHay(r, hi, which)} : x.ok} }
          : hi \in DOMAIN r.hays, which \in {"opt", "noopt"} }

(***************************************************************************)
(* C04: the start predicate the compiler derived (dumped with the program) *)
(* must admit every offset at which an anchored attempt succeeds - also    *)
(* offsets after the first match, which a differential run never reaches.  *)
(***************************************************************************)
WantPred == "PRED" \in DOMAIN IOEnv /\ IOEnv.PRED = "1"

Admits(sp, B, p) ==
  CASE sp.kind = "Arbitrary" -> TRUE
    [] sp.kind = "ByteSet" -> p < Len(B) /\ InSeq(sp.bytes, B[p + 1])
    [] sp.kind = "ByteSeq" -> p + Len(sp.bytes) <= Len(B) /\ SubSeq(B, p + 1, p + Len(sp.bytes)) = sp.bytes
    [] sp.kind = "StartAnchored" -> p = 0

Boundaries(B) == {p \in 0..Len(B) : OnBoundary(B, p)}

PredMismatches(r) ==
  IF ~WantPred THEN {}
  ELSE UNION { LET P == r.progs[which]
                   B == Utf8Seq(r.hays[hi])
               IN { [kind |-> "pred", id |-> r.rid, h |-> hi - 1, prog |-> which, at |-> p, pred |-> P.start_pred] :
                      p \in {q \in Boundaries(B) :
                               /\ ~Admits(P.start_pred, B, q)
                               /\ BT!RunAll(P, B, BT!InitState(P, q), Fuel).status = "matched"} }
             : hi \in DOMAIN r.hays, which \in {"opt", "noopt"} }

RECURSIVE TakeSome(_, _)
TakeSome(S, k) == IF k = 0 \/ S = {} THEN {} ELSE LET x == CHOOSE y \in S : TRUE IN {x} \cup TakeSome(S \ {x}, k - 1)

Report(r) ==
  LET mm == Mismatches(r)
      pm == PredMismatches(r)
  IN /\ \A m \in TakeSome(mm, 3) : PrintT("J " \o ToJson(m))
     /\ \A m \in TakeSome(pm, 3) : PrintT("J " \o ToJson(m))
     /\ PrintT("J " \o ToJson([kind |-> "vmstat", id |-> r.rid, runs |-> 4 * Len(r.hays), mism |-> Cardinality(mm)]))

VARIABLE i
\* (the first state judges nothing: TLC evaluates initial states on a thread with a small stack)
Init == i = 0
Next == IF i = 0 THEN i' \in 1..Min2(NCHAINS, NObs) ELSE i + NCHAINS <= NObs /\ i' = i + NCHAINS
Judged == i = 0 \/ Report(Obs[i])
=============================================================================
