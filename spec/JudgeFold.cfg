CONSTANT ScfClasses <- OScf
CONSTANT LegacyClasses <- OLegacy
INIT Init
NEXT Next
INVARIANT Judged
CHECK_DEADLOCK FALSE
