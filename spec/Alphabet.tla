------------------------------ MODULE Alphabet ------------------------------
(***************************************************************************)
(* The concrete characters the model reasons about, as code points, with   *)
(* the character properties the engine branches on written out by hand     *)
(* (from the Unicode character database and ECMA-262, not from the code).  *)
(*                                                                         *)
(* Everything here is closed under the two case relations: whenever a code *)
(* point with a non-trivial case class is listed, every member of its      *)
(* class is listed, so "no entry" means "canonicalizes to itself and       *)
(* nothing else canonicalizes to it".  Generators only put code points     *)
(* under the i flag that are either listed here or caseless (digits,       *)
(* punctuation, symbols, surrogates).                                      *)
(***************************************************************************)
EXTENDS Naturals, Integers, Sequences, FiniteSets

\* ECMA-262 LineTerminator
LineTerminators == {10, 13, 8232, 8233}

\* ECMA-262 WhiteSpace \cup LineTerminator (the set denoted by \s)
WhiteSpaceChars ==
  {9, 10, 11, 12, 13, 32, 160, 5760, 8232, 8233, 8239, 8287, 12288, 65279}
  \cup (8192..8202)

IsDigitCp(c) == c >= 48 /\ c <= 57
IsBasicWordCp(c) ==
  (c >= 97 /\ c <= 122) \/ (c >= 65 /\ c <= 90) \/ (c >= 48 /\ c <= 57) \/ c = 95

(***************************************************************************)
(* Simple case folding (CaseFolding.txt, statuses C and S) restricted to   *)
(* the model alphabet; ASCII letters by rule, the rest listed.             *)
(***************************************************************************)
ScfTable ==
  << <<181, 956>>,      \* U+00B5 MICRO SIGN -> U+03BC
     <<924, 956>>,      \* U+039C GREEK CAPITAL MU -> U+03BC
     <<383, 115>>,      \* U+017F LONG S -> s
     <<8490, 107>>,     \* U+212A KELVIN SIGN -> k
     <<7838, 223>>,     \* U+1E9E CAPITAL SHARP S -> U+00DF (status S)
     <<201, 233>>,      \* U+00C9 -> U+00E9
     <<931, 963>>,      \* U+03A3 SIGMA -> U+03C3
     <<962, 963>>,      \* U+03C2 FINAL SIGMA -> U+03C3
     <<452, 454>>,      \* U+01C4 -> U+01C6
     <<453, 454>>,      \* U+01C5 -> U+01C6
     <<66560, 66600>>,  \* U+10400 -> U+10428
     <<1046, 1078>>     \* U+0416 CYRILLIC ZHE -> U+0436
  >>

Scf(c) ==
  IF c >= 65 /\ c <= 90 THEN c + 32
  ELSE IF \E i \in DOMAIN ScfTable : ScfTable[i][1] = c
       THEN (CHOOSE p \in {ScfTable[i] : i \in DOMAIN ScfTable} : p[1] = c)[2]
       ELSE c

(***************************************************************************)
(* ECMA-262 legacy Canonicalize (no u/v flag): the full toUpperCase        *)
(* mapping, unless it is not a single character, or maps a non-ASCII       *)
(* character to an ASCII one.  Restricted to the model alphabet.           *)
(*   U+00DF -> "SS" (two characters): itself.                              *)
(*   U+017F -> "S", U+0131 -> "I" (non-ASCII to ASCII): themselves.        *)
(*   U+212A, U+1E9E, U+0130 are uppercase already.                         *)
(***************************************************************************)
LegacyTable ==
  << <<181, 924>>,    \* U+00B5 -> U+039C
     <<956, 924>>,    \* U+03BC -> U+039C
     <<233, 201>>,    \* U+00E9 -> U+00C9
     <<963, 931>>,    \* U+03C3 -> U+03A3
     <<962, 931>>,    \* U+03C2 -> U+03A3
     <<453, 452>>,    \* U+01C5 -> U+01C4
     <<454, 452>>,    \* U+01C6 -> U+01C4
     <<1078, 1046>>   \* U+0436 -> U+0416
  >>

LegacyCanon(c) ==
  IF c >= 97 /\ c <= 122 THEN c - 32
  ELSE IF \E i \in DOMAIN LegacyTable : LegacyTable[i][1] = c
       THEN (CHOOSE p \in {LegacyTable[i] : i \in DOMAIN LegacyTable} : p[1] = c)[2]
       ELSE c

\* Code points of the model alphabet that take part in some case relation.
CasedCps ==
  (65..90) \cup (97..122)
  \cup {181, 956, 924, 383, 8490, 7838, 223, 201, 233, 931, 962, 963, 452, 453, 454,
        66560, 66600, 1046, 1078, 304, 305}

\* Canonicalize(rer, ch) of ECMA-262 for an environment with fields i (ignoreCase)
\* and u (unicode or unicodeSets).
Canon(c, icase, uni) ==
  IF ~icase THEN c ELSE IF uni THEN Scf(c) ELSE LegacyCanon(c)

\* All code points that canonicalize like c (including c).
EqClass(c, icase, uni) ==
  IF ~icase THEN {c}
  ELSE {c} \cup {d \in CasedCps : Canon(d, icase, uni) = Canon(c, icase, uni)}

\* WordCharacters(rer) of ECMA-262: the basic word characters plus every character
\* whose canonical form is a basic word character (U+017F and U+212A under iu).
IsWordCp(c, icase, uni) ==
  IsBasicWordCp(c) \/ (icase /\ uni /\ c \in {383, 8490})

(***************************************************************************)
(* UTF-8 and UTF-16.  Surrogate code points have no UTF-8 form.            *)
(***************************************************************************)
IsSurrogate(c) == c >= 55296 /\ c <= 57343

Utf8(c) ==
  IF c < 128 THEN <<c>>
  ELSE IF c < 2048 THEN <<192 + (c \div 64), 128 + (c % 64)>>
  ELSE IF c < 65536 THEN <<224 + (c \div 4096), 128 + ((c \div 64) % 64), 128 + (c % 64)>>
  ELSE <<240 + (c \div 262144), 128 + ((c \div 4096) % 64), 128 + ((c \div 64) % 64), 128 + (c % 64)>>

Utf8Len(c) == IF c < 128 THEN 1 ELSE IF c < 2048 THEN 2 ELSE IF c < 65536 THEN 3 ELSE 4

Utf16(c) ==
  IF c < 65536 THEN <<c>>
  ELSE <<55296 + ((c - 65536) \div 1024), 56320 + ((c - 65536) % 1024)>>

Utf16Len(c) == IF c < 65536 THEN 1 ELSE 2

RECURSIVE FlattenSeq(_)
FlattenSeq(ss) == IF ss = <<>> THEN <<>> ELSE Head(ss) \o FlattenSeq(Tail(ss))

Utf8Seq(h) == FlattenSeq([i \in DOMAIN h |-> Utf8(h[i])])
Utf16Seq(h) == FlattenSeq([i \in DOMAIN h |-> Utf16(h[i])])

RECURSIVE ByteOff(_, _), UnitOff(_, _)
\* Byte offset of code point index k (0-based, 0..Len(h)) in the UTF-8 encoding of h.
ByteOff(h, k) == IF k = 0 THEN 0 ELSE ByteOff(h, k - 1) + Utf8Len(h[k])
\* The same for UTF-16 code units.
UnitOff(h, k) == IF k = 0 THEN 0 ELSE UnitOff(h, k - 1) + Utf16Len(h[k])
=============================================================================
