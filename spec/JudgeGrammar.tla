----------------------------- MODULE JudgeGrammar -----------------------------
(***************************************************************************)
(* C08, binding B2: judge `runner grammar --with-p` records against the    *)
(* ECMAScript grammar.  A record: rid, p (code points), res and noopt      *)
(* as sequences resv / nooptv of "o" (Ok), "e" (Err), "p" (panic), one per  *)
(* flag set.                                                               *)
(***************************************************************************)
EXTENDS ESGrammar, TLC, Json, IOUtils, SequencesExt

Obs == ndJsonDeserialize(IOEnv.OBS)
NObs == Len(Obs)
NCHAINS == 16
Min2(a, b) == IF a < b THEN a ELSE b

FlagSets == <<"", "i", "m", "s", "ims", "u", "iu", "msu", "v", "iv", "msv", "imsv">>
ModeOf(k) == IF k >= 9 THEN 3 ELSE IF k >= 6 THEN 2 ELSE 1

Mismatches(r) ==
  LET exp == <<Verdict(r.p, FALSE, FALSE), Verdict(r.p, TRUE, FALSE), Verdict(r.p, FALSE, TRUE)>>
      d14 == VerdictLegacyD14(r.p)
      Wrong(got, e) == got # "p" /\ e # "unk" /\ ((e = "ok") # (got = "o"))
      Of(v, no) == { [kind |-> "grammar", id |-> r.rid, p |-> r.p, flags |-> FlagSets[k], noopt |-> no,
                      exp |-> exp[ModeOf(k)], got |-> v[k],
                      dev |-> IF ModeOf(k) = 1 /\ (d14 = "ok") = (v[k] = "o") THEN <<"D14">> ELSE <<>>] :
                        k \in {x \in 1..12 : Wrong(v[x], exp[ModeOf(x)])} }
  IN [mm |-> Of(r.resv, FALSE) \cup Of(r.nooptv, TRUE),
      unk |-> Cardinality({m \in 1..3 : exp[m] = "unk"}) * 8,
      anyok |-> \E m \in 1..3 : exp[m] = "ok"]

RECURSIVE TakeSome(_, _)
TakeSome(S, n) == IF n = 0 \/ S = {} THEN {} ELSE LET x == CHOOSE y \in S : TRUE IN {x} \cup TakeSome(S \ {x}, n - 1)

Report(r) ==
  LET j == Mismatches(r)
  IN /\ \A m \in TakeSome(j.mm, 4) : PrintT("J " \o ToJson(m))
     /\ PrintT("J " \o ToJson([kind |-> "gstat", id |-> r.rid, unk |-> j.unk, anyok |-> j.anyok, mism |-> Cardinality(j.mm)]))

VARIABLE i
\* (the first state judges nothing: TLC evaluates initial states on a thread with a small stack)
Init == i = 0
Next == IF i = 0 THEN i' \in 1..Min2(NCHAINS, NObs) ELSE i + NCHAINS <= NObs /\ i' = i + NCHAINS
Judged == i = 0 \/ Report(Obs[i])
=============================================================================
