------------------------------- MODULE MCIter -------------------------------
(* Every attempt table on a haystack of MaxLen characters, every start, every call history. *)
EXTENDS Iter, TLC
CONSTANT MaxLen
Ends(p) == {None} \cup (p..MaxLen)
Tables == {A \in [1..(MaxLen + 1) -> (0..MaxLen) \cup {None}] : \A q \in 1..(MaxLen + 1) : A[q] \in Ends(q - 1)}
MCInit == \E A \in Tables : \E start \in 0..(MaxLen + 1) : InitWith(MaxLen, A, start)
MCNext == polls < MaxLen + 5 /\ NextCall
MCSpec == MCInit /\ [][MCNext]_vars /\ WF_vars(MCNext)
=============================================================================
