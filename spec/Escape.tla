------------------------------- MODULE Escape -------------------------------
(***************************************************************************)
(* C18: escape(s) is a pattern for the literal s.                          *)
(*  - escape only inserts backslashes: deleting inserted backslashes gives *)
(*    s back (IsBackslashInsertion);                                       *)
(*  - a character that the pattern grammar would read as syntax must be    *)
(*    escaped (otherwise the result would not denote s), which is what the *)
(*    match comparison below decides semantically;                         *)
(*  - under every flag set the compiled pattern finds exactly the          *)
(*    occurrences of s (case-insensitive occurrences under i): the         *)
(*    expected matches are those of the literal AST Cat(Chr(s[1]), ...)    *)
(*    under ESSem.                                                         *)
(***************************************************************************)
EXTENDS ESSem, RegexAST

Backslash == 92

RECURSIVE IsBackslashInsertion(_, _, _, _)
\* e[i..] is s[j..] with backslashes inserted in front of some characters
IsBackslashInsertion(e, i, s, j) ==
  IF j > Len(s) THEN i > Len(e)
  ELSE IF i > Len(e) THEN FALSE
  ELSE \/ (e[i] = s[j] /\ IsBackslashInsertion(e, i + 1, s, j + 1))
       \/ (e[i] = Backslash /\ i < Len(e) /\ e[i + 1] = s[j] /\ IsBackslashInsertion(e, i + 2, s, j + 1))

OnlyInsertsBackslashes(e, s) == IsBackslashInsertion(e, 1, s, 1)

LiteralAst(s) == IF s = <<>> THEN Empty ELSE Cat([k \in DOMAIN s |-> Chr(s[k])])

ExpectedMatches(s, h, fl) == AllMatches(LiteralAst(s), 0, h, EnvOf(fl), 0)
ExpectedMatchesDev(s, h, fl, dev) == AllMatches(LiteralAst(s), 0, h, EnvDev(fl, dev), 0)
=============================================================================
