---------------------------- MODULE TraceSearcher ----------------------------
(***************************************************************************)
(* C20, binding B3: validate the recorded step streams of the real         *)
(* RegexSearcher (and the results of the str methods built on it) against  *)
(* Searcher.tla.  TRACE: ndjson, a concatenation of runs:                  *)
(*   {"ev":"reset","run":n,"len":L,"matches":[[s,e],..],"bounds":[..]}    *)
(*   {"ev":"next"|"next_back","k":"M"|"R"|"D","a":..,"b":..} ...           *)
(*   {"ev":"api", "find":.., "rfind":.., "contains":.., "mi":[..], "rmi":[..],*)
(*    "split":[..], "rsplit":[..], "sw":.., "ew":.., "ts":.., "te":..}     *)
(* Each step event must be exactly the step the specification's NextFwd /  *)
(* NextBack takes; a step the contract does not allow is reported and the  *)
(* rest of that run is skipped (the other runs are still validated).       *)
(***************************************************************************)
EXTENDS Searcher, TLC, Json, IOUtils, FiniteSets

Rec == ndJsonDeserialize(IOEnv.TRACE)
N == Len(Rec)

VARIABLES l, run, bounds, skipping
tvars == <<vars, l, run, bounds, skipping>>

TInit == /\ InitWith(0, <<>>) /\ l = 1 /\ run = -1 /\ bounds = {0} /\ skipping = FALSE

E == Rec[l]
Logged == [k |-> E.k, a |-> E.a, b |-> E.b]
SeqSet(s) == {s[k] : k \in DOMAIN s}

TReset == /\ l <= N /\ E.ev = "reset"
          /\ Reset(E.len, E.matches)
          /\ l' = l + 1 /\ run' = E.run /\ bounds' = SeqSet(E.bounds) /\ skipping' = FALSE

OnBounds(st) == st.k = "D" \/ (st.a \in bounds /\ st.b \in bounds)

Bad(why, exp) ==
  PrintT("J " \o ToJson([kind |-> "searcher", run |-> run, at |-> l, why |-> why, event |-> E, expected |-> exp]))

TFwd == /\ l <= N /\ E.ev = "next" /\ ~skipping
        /\ Logged = ExpFwd /\ OnBounds(Logged)
        /\ NextFwd
        /\ l' = l + 1 /\ UNCHANGED <<run, bounds, skipping>>

TBack == /\ l <= N /\ E.ev = "next_back" /\ ~skipping
         /\ Logged = ExpBack /\ OnBounds(Logged)
         /\ NextBack
         /\ l' = l + 1 /\ UNCHANGED <<run, bounds, skipping>>

ApiExpected ==
  [find |-> Find, rfind |-> RFind, contains |-> Contains, mi |-> MatchIndices, rmi |-> RMatchIndices,
   split |-> Split, rsplit |-> RSplit, sw |-> StartsWith, ew |-> EndsWith, ts |-> TrimStart, te |-> TrimEnd]
ApiLogged ==
  [find |-> E.find, rfind |-> E.rfind, contains |-> E.contains, mi |-> E.mi, rmi |-> E.rmi,
   split |-> E.split, rsplit |-> E.rsplit, sw |-> E.sw, ew |-> E.ew, ts |-> E.ts, te |-> E.te]

TApi == /\ l <= N /\ E.ev = "api" /\ ~skipping
        /\ ApiLogged = ApiExpected
        /\ l' = l + 1 /\ UNCHANGED <<vars, run, bounds, skipping>>

\* a logged event the contract does not allow: report, skip to the next run
TMismatch ==
  /\ l <= N /\ ~skipping
  /\ \/ (E.ev = "next" /\ (Logged # ExpFwd \/ ~OnBounds(Logged)) /\ Bad("forward step", ExpFwd))
     \/ (E.ev = "next_back" /\ (Logged # ExpBack \/ ~OnBounds(Logged)) /\ Bad("reverse step", ExpBack))
     \/ (E.ev = "api" /\ ApiLogged # ApiExpected /\ Bad("str method", ApiExpected))
  /\ skipping' = TRUE /\ l' = l + 1 /\ UNCHANGED <<vars, run, bounds>>

TSkip == /\ l <= N /\ skipping /\ E.ev # "reset" /\ l' = l + 1 /\ UNCHANGED <<vars, run, bounds, skipping>>

TNext == TReset \/ TFwd \/ TBack \/ TApi \/ TMismatch \/ TSkip
TSpec == TInit /\ [][TNext]_tvars

\* the whole trace was consumed (checked as a postcondition by the driver through the final print)
Finished == (l = N + 1) => PrintT("J " \o ToJson([kind |-> "searcherdone", events |-> N]))
=============================================================================
