------------------------------ MODULE JudgeCost ------------------------------
(***************************************************************************)
(* C05: every search terminates with bounded backtracking state.           *)
(* Input OBS: records of `runner sem --cost`: for every haystack the       *)
(* number of instruction dispatches (steps) and the largest backtrack /    *)
(* thread stack (depth) of the whole iteration from offset 0, measured by  *)
(* the hooks on the real executors, as a flat sequence                     *)
(*   <<bt_opt steps, depth, pv_opt steps, depth, bt_noopt .., pv_noopt ..>>*)
(* (-1 = the run did not finish: it ran out of fuel or panicked).          *)
(* The yardstick is the reference search itself: SearchCost = the number   *)
(* of matcher invocations ECMA-262's ordered search performs over all      *)
(* start offsets.  The executors must stay within K * SearchCost + K0.     *)
(* K and K0 are fixed, generous constants: they bound *growth*; a loop     *)
(* that does not terminate exceeds any constant (and runs out of fuel).    *)
(* FUEL is the budget the runs were given: a run that spent it has taken   *)
(* more than FUEL steps, which is out of bound exactly when the bound is   *)
(* below FUEL; when the bound itself exceeds the budget (an exponential    *)
(* reference search on a long haystack) the run decides nothing and is     *)
(* counted as undecided.                                                   *)
(***************************************************************************)
EXTENDS ESSem, RegexAST, TLC, Json, IOUtils, FiniteSets

Obs == ndJsonDeserialize(IOEnv.OBS)
NObs == Len(Obs)
NCHAINS == 16
K == 24
K0 == 64
FUEL == IF "FUEL" \in DOMAIN IOEnv THEN atoi(IOEnv.FUEL) ELSE 2000000000

Min2(a, b) == IF a < b THEN a ELSE b
Names == <<"bt_opt", "pv_opt", "bt_noopt", "pv_noopt">>

Max2(a, b) == IF a > b THEN a ELSE b

\* Per haystack: the reference cost (computed once), the runs out of bound, the worst ratio x100.
PerHay(r, hi) ==
  LET ref == SearchCost(r.ast, r.ng, r.hays[hi], EnvOf(r.fl))
      bound == K * ref + K0
      c == r.cost[hi]
  IN [mm |-> { [kind |-> "cost", id |-> r.rid, h |-> hi - 1, var |-> Names[v], ref |-> ref, bound |-> bound,
                steps |-> c[2 * v - 1], depth |-> c[2 * v]] :
                 v \in {w \in 1..4 : (c[2 * w - 1] < 0 /\ bound < FUEL) \/ c[2 * w - 1] > bound \/ c[2 * w] > bound} },
      und |-> Cardinality({w \in 1..4 : c[2 * w - 1] < 0 /\ bound >= FUEL}),
      ratio |-> (100 * Max2(Max2(c[1], c[3]), Max2(c[5], c[7]))) \div ref]

Summary(r) ==
  IF r.compile.opt # "ok" \/ r.compile.noopt # "ok" THEN [mm |-> {}, ratio |-> 0, und |-> 0]
  ELSE LET per == [hi \in DOMAIN r.hays |-> PerHay(r, hi)]
       IN [mm |-> UNION {per[hi].mm : hi \in DOMAIN per},
           und |-> FoldLeft(LAMBDA acc, x : acc + x.und, 0, per),
           ratio |-> FoldLeft(LAMBDA acc, x : Max2(acc, x.ratio), 0, per)]

RECURSIVE TakeSome(_, _)
TakeSome(S, n) == IF n = 0 \/ S = {} THEN {} ELSE LET x == CHOOSE y \in S : TRUE IN {x} \cup TakeSome(S \ {x}, n - 1)

Report(r) ==
  LET sm == Summary(r)
  IN /\ \A m \in TakeSome(sm.mm, 3) : PrintT("J " \o ToJson(m))
     /\ PrintT("J " \o ToJson([kind |-> "coststat", id |-> r.rid, runs |-> 4 * Len(r.hays),
                               mism |-> Cardinality(sm.mm), ratio100 |-> sm.ratio, undecided |-> sm.und]))

VARIABLE i
\* (the first state judges nothing: TLC evaluates initial states on a thread with a small stack)
Init == i = 0
Next == IF i = 0 THEN i' \in 1..Min2(NCHAINS, NObs) ELSE i + NCHAINS <= NObs /\ i' = i + NCHAINS
Judged == i = 0 \/ Report(Obs[i])
=============================================================================
