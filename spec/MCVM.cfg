SPECIFICATION Spec
INVARIANT PosInRangeInv
INVARIANT PosOnBoundaryInv
INVARIANT IpInRangeInv
INVARIANT GroupsInv
INVARIANT StackBoundInv
CHECK_DEADLOCK FALSE
