------------------------------ MODULE GenEscape ------------------------------
(* Enumerate the C18 cases: every string up to a length bound over an alphabet containing all
   syntax characters, punctuation that is special somewhere (class sets, modifiers, named groups),
   escape letters, digits and non-ASCII characters; with haystacks built from the string. *)
EXTENDS RegexAST, Json, IOUtils, TLC

CONSTANT TIER
Thorough == TIER = "thorough"
OutFile == IOEnv.OUT

\* ^ $ \ . * + ? ( ) [ ] { } |
Syntax == {94, 36, 92, 46, 42, 43, 63, 40, 41, 91, 93, 123, 125, 124}
\* / - , = < > ! & # : space
Punct == {47, 45, 44, 61, 60, 62, 33, 38, 35, 58, 32}
\* b c d k p q u x a A 0 1
Letters == {98, 99, 100, 107, 112, 113, 117, 120, 97, 65, 48, 49}
NonAscii == {233, 128512, 924}     \* e-acute, U+1F600, GREEK CAPITAL MU (its lower-case partners U+00B5, U+03BC are smaller / larger)
Full == Syntax \cup Punct \cup Letters \cup NonAscii

Strings == IF Thorough THEN StringsUpTo(Full, 3)
           ELSE StringsUpTo(Full, 2) \cup StringsUpTo(Syntax \cup {45, 98, 107, 49, 233}, 3)

SwapCase(c) == IF c >= 97 /\ c <= 122 THEN c - 32 ELSE IF c >= 65 /\ c <= 90 THEN c + 32
               ELSE IF c = 233 THEN 201 ELSE IF c = 924 THEN 181 ELSE c
HaysOf(s) == { s, <<122>> \o s \o <<122>>, s \o s, (IF s = <<>> THEN <<>> ELSE Tail(s)) \o s, <<>>,
               [k \in DOMAIN s |-> SwapCase(s[k])] \o <<122>> \o s, <<122, 233>>,
               \* U+0000 where s has a non-ASCII character: nothing but s's own characters may match there
               [k \in DOMAIN s |-> IF s[k] > 127 THEN 0 ELSE s[k]] }

CaseSeq == SetToSeq({[fam |-> "escape", s |-> s, hays |-> SetToSeq(HaysOf(s))] : s \in Strings})

ASSUME PrintT(<<"ESCAPE", "cases", Len(CaseSeq)>>)
ASSUME ndJsonSerialize(OutFile, CaseSeq)
VARIABLE done
Init == done = TRUE
Next == UNCHANGED done
=============================================================================
