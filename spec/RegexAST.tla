------------------------------ MODULE RegexAST ------------------------------
(***************************************************************************)
(* Abstract syntax of ECMAScript patterns, as consumed by ESSem, with      *)
(* constructors, the left-parenthesis numbering of capture groups and the  *)
(* resolution of named references.                                         *)
(***************************************************************************)
EXTENDS Naturals, Integers, Sequences, FiniteSets, SequencesExt

Empty == [t |-> "empty"]
Chr(c) == [t |-> "chr", c |-> c]
Dot == [t |-> "dot"]
Esc(e) == [t |-> "esc", e |-> e]
\* class items
IC(c) == [k |-> "c", c |-> c]
IR(lo, hi) == [k |-> "r", lo |-> lo, hi |-> hi]
IE(e) == [k |-> "e", e |-> e]
IP(name, neg) == [k |-> "p", name |-> name, neg |-> neg]
Cls(neg, items) == [t |-> "cls", neg |-> neg, items |-> items]
\* \p{name} / \P{name} as an atom
Prop(name, neg) == [t |-> "prop", name |-> name, neg |-> neg]
\* class sets (v): expression constructors, see ClassSet.tla
SC(c) == [k |-> "c", c |-> c]
SR(lo, hi) == [k |-> "r", lo |-> lo, hi |-> hi]
SE(e) == [k |-> "e", e |-> e]
SP(name, neg) == [k |-> "p", name |-> name, neg |-> neg]
SQ(strs) == [k |-> "q", strs |-> strs]
SU(xs) == [k |-> "u", xs |-> xs]
SI(xs) == [k |-> "i", xs |-> xs]
SS(xs) == [k |-> "s", xs |-> xs]
SN(neg, x) == [k |-> "n", neg |-> neg, x |-> x]
VCls(neg, x) == [t |-> "vcls", neg |-> neg, x |-> x]
Cat(xs) == [t |-> "cat", xs |-> xs]
Alt(xs) == [t |-> "alt", xs |-> xs]
\* id is assigned by Number; name = <<>> for an unnamed group
Grp(b) == [t |-> "grp", id |-> -1, name |-> <<>>, b |-> b]
NGrp(name, b) == [t |-> "grp", id |-> -1, name |-> name, b |-> b]
Ncg(b) == [t |-> "ncg", b |-> b]
Mod(add, rem, b) == [t |-> "mod", add |-> add, rem |-> rem, b |-> b]
Rep(b, mn, mx, greedy) == [t |-> "rep", b |-> b, min |-> mn, max |-> mx, greedy |-> greedy]
BRef(n) == [t |-> "bref", n |-> n]
KRef(name) == [t |-> "kref", name |-> name, ids |-> <<>>]
Look(b, behind, neg) == [t |-> "look", b |-> b, behind |-> behind, neg |-> neg]
Bol == [t |-> "bol"]
Eol == [t |-> "eol"]
Wb(neg) == [t |-> "wb", neg |-> neg]

Star(b) == Rep(b, 0, -1, TRUE)
Plus(b) == Rep(b, 1, -1, TRUE)
Opt(b) == Rep(b, 0, 1, TRUE)
LazyStar(b) == Rep(b, 0, -1, FALSE)
Quant(b, q) == Rep(b, q[1], q[2], q[3])

HasBody(n) == n.t \in {"grp", "ncg", "mod", "rep", "look"}
HasKids(n) == n.t \in {"cat", "alt"}

RECURSIVE Num(_, _), NumSeq(_, _, _)
\* Number the groups of n in pre-order starting from k; the result is <<n', next k>>.
Num(n, k) ==
  CASE n.t = "grp" -> LET r == Num(n.b, k + 1) IN <<[n EXCEPT !.id = k, !.b = r[1]], r[2]>>
    [] HasBody(n) -> LET r == Num(n.b, k) IN <<[n EXCEPT !.b = r[1]], r[2]>>
    [] HasKids(n) -> LET r == NumSeq(n.xs, 1, k) IN <<[n EXCEPT !.xs = r[1]], r[2]>>
    [] OTHER -> <<n, k>>
NumSeq(xs, j, k) ==
  IF j > Len(xs) THEN <<<<>>, k>>
  ELSE LET r == Num(xs[j], k)
           rest == NumSeq(xs, j + 1, r[2])
       IN <<<<r[1]>> \o rest[1], rest[2]>>

RECURSIVE NamedGroups(_)
\* The set of <<name, id>> pairs of the named groups of a numbered tree.
NamedGroups(n) ==
  CASE n.t = "grp" -> (IF n.name = <<>> THEN {} ELSE {<<n.name, n.id>>}) \cup NamedGroups(n.b)
    [] HasBody(n) -> NamedGroups(n.b)
    [] HasKids(n) -> UNION {NamedGroups(n.xs[j]) : j \in DOMAIN n.xs}
    [] OTHER -> {}

RECURSIVE Resolve(_, _)
\* Replace the ids of every named reference by the ids of the groups with that name.
Resolve(n, ng) ==
  CASE n.t = "kref" -> [n EXCEPT !.ids = SetToSortSeq({p[2] : p \in {q \in ng : q[1] = n.name}}, <)]
    [] HasBody(n) -> [n EXCEPT !.b = Resolve(n.b, ng)]
    [] HasKids(n) -> [n EXCEPT !.xs = [j \in DOMAIN n.xs |-> Resolve(n.xs[j], ng)]]
    [] OTHER -> n

\* A finished pattern: numbered tree, number of groups, and the group names in order.
Finish(n) ==
  LET r == Num(n, 0)
      ng == NamedGroups(r[1])
      names == [g \in 1..r[2] |->
                  IF \E p \in ng : p[2] = g - 1 THEN (CHOOSE p \in ng : p[2] = g - 1)[1] ELSE <<>>]
  IN [ast |-> Resolve(r[1], ng), ng |-> r[2], names |-> names]

RECURSIVE MaxRef(_)
\* The largest numbered backreference in a tree (0 if none).
MaxRef(n) ==
  CASE n.t = "bref" -> n.n
    [] HasBody(n) -> MaxRef(n.b)
    [] HasKids(n) -> LET S == {MaxRef(n.xs[j]) : j \in DOMAIN n.xs} \cup {0}
                     IN CHOOSE m \in S : \A x \in S : x <= m
    [] OTHER -> 0

RECURSIVE Depth(_)
Depth(n) ==
  CASE HasBody(n) -> 1 + Depth(n.b)
    [] HasKids(n) -> 1 + (IF n.xs = <<>> THEN 0
                          ELSE CHOOSE d \in {Depth(n.xs[j]) : j \in DOMAIN n.xs} :
                                 \A j \in DOMAIN n.xs : Depth(n.xs[j]) <= d)
    [] OTHER -> 0

Flags(i, m, s, u, v) == [i |-> i, m |-> m, s |-> s, u |-> u, v |-> v]
NoFlags == Flags(FALSE, FALSE, FALSE, FALSE, FALSE)
UFlags == Flags(FALSE, FALSE, FALSE, TRUE, FALSE)

\* The ESSem environment of a flag record: v implies u.
EnvOf(fl) == [i |-> fl.i, m |-> fl.m, s |-> fl.s, u |-> fl.u \/ fl.v, v |-> fl.v, dev |-> {}]
EnvDev(fl, dev) == [EnvOf(fl) EXCEPT !.dev = dev]

RECURSIVE StringsUpTo(_, _)
\* All sequences over the set A of length at most n.
StringsUpTo(A, n) ==
  IF n = 0 THEN {<<>>}
  ELSE LET shorter == StringsUpTo(A, n - 1)
       IN shorter \cup {Append(s, a) : s \in {x \in shorter : Len(x) = n - 1}, a \in A}
=============================================================================
