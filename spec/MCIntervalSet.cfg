CONSTANT Bounds <- MCBounds
CONSTANT Observe <- MCObserve
INIT Init
NEXT Next
INVARIANT RepInv
INVARIANT Laws
CHECK_DEADLOCK FALSE
