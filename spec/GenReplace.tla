------------------------------ MODULE GenReplace ------------------------------
(***************************************************************************)
(* Enumerate the C17 cases: all templates up to a length bound over a      *)
(* symbol alphabet that contains everything the template scanner branches  *)
(* on, for a fixed set of regexes whose match sequences cover: no match,   *)
(* one match, adjacent matches, empty matches next to multi-byte           *)
(* characters, a non-participating group, named and duplicate-named        *)
(* groups.  One JSON line per (regex, chunk of templates).                 *)
(***************************************************************************)
EXTENDS Families, Json, IOUtils

OutFile == IOEnv.OUT

\* $ 0 1 2 9 { } n m x e-acute
Symbols == IF Thorough THEN {36, 48, 49, 50, 57, 123, 125, 110, 109, 120, 233}
           ELSE {36, 48, 49, 50, 123, 125, 110, 120, 233}
MaxLen == IF Thorough THEN 5 ELSE 4
Templates == StringsUpTo(Symbols, MaxLen)

Regexes ==
  { [ast |-> Chr(cx), fl |-> NoFlags, hays |-> {<<ca, cb>>, <<>>}],                                       \* no match / x
    [ast |-> Cat(<<Grp(A), Opt(Grp(B))>>), fl |-> NoFlags, hays |-> {<<cx, ca, cb, ca, cx>>, <<ca, ca>>}],   \* (a)(b)?
    [ast |-> Alt(<<NGrp(nA, A), NGrp(nA, B)>>), fl |-> NoFlags, hays |-> {<<cb, cx, ca>>, <<cEacute, cb, cb>>}], \* duplicate name
    [ast |-> Star(Chr(cx)), fl |-> NoFlags, hays |-> {<<cEacute, cx, cGrin>>, <<cx, cx, ca>>, <<>>}],        \* empty matches, empty haystack
    [ast |-> Cat(<<NGrp(nA, Dot), NGrp(nB, Opt(Chr(cEacute)))>>), fl |-> UFlags, hays |-> {<<ca, cEacute, cb>>, <<cGrin>>}],
    [ast |-> Alt(<<Cat(<<Grp(A), NGrp(nA, B)>>), Cat(<<NGrp(nA, B), Grp(Chr(cc))>>)>>), fl |-> NoFlags,
     hays |-> {<<ca, cb, cb, cc>>, <<cb, cc, ca, cb>>}] }

ChunkSize == 400
TplSeq == SetToSeq(Templates)
NChunks == (Len(TplSeq) + ChunkSize - 1) \div ChunkSize
Chunk(c) == SubSeq(TplSeq, (c - 1) * ChunkSize + 1, IF c * ChunkSize < Len(TplSeq) THEN c * ChunkSize ELSE Len(TplSeq))

CaseOf(x, c) ==
  LET f == Finish(x.ast)
  IN [fam |-> "replace", ast |-> f.ast, ng |-> f.ng, names |-> f.names, fl |-> x.fl,
      hays |-> SetToSeq(x.hays), templates |-> Chunk(c)]

CaseSeq == SetToSeq({CaseOf(x, c) : x \in Regexes, c \in 1..NChunks})

ASSUME PrintT(<<"REPLACE", "templates", Len(TplSeq), "cases", Len(CaseSeq)>>)
ASSUME ndJsonSerialize(OutFile, CaseSeq)

VARIABLE done
Init == done = TRUE
Next == UNCHANGED done
=============================================================================
