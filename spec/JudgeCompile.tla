---------------------------- MODULE JudgeCompile ----------------------------
(* Judge the dumped no_opt programs against Compile.tla (records of `runner sem --progs`,
   which carry the pattern tree and both programs). *)
EXTENDS Compile, TLC, Json, IOUtils

Obs == ndJsonDeserialize(IOEnv.OBS)
NObs == Len(Obs)
NCHAINS == 16
Min2(a, b) == IF a < b THEN a ELSE b

Report(r) ==
  IF ~Plain(r.ast) THEN PrintT("J " \o ToJson([kind |-> "compilestat", id |-> r.rid, judged |-> FALSE, ok |-> TRUE]))
  ELSE LET exp == Compile(r.ast, r.fl)
           got == Skeleton(r.progs.noopt)
           ok == got = exp.code /\ r.progs.noopt.loops = exp.loops /\ r.progs.noopt.groups = r.ng
       IN /\ ok \/ PrintT("J " \o ToJson([kind |-> "emit", id |-> r.rid, exp |-> exp.code, got |-> got,
                                            loops |-> <<exp.loops, r.progs.noopt.loops>>, groups |-> <<r.ng, r.progs.noopt.groups>>]))
          /\ PrintT("J " \o ToJson([kind |-> "compilestat", id |-> r.rid, judged |-> TRUE, ok |-> ok]))

VARIABLE i
\* (the first state judges nothing: TLC evaluates initial states on a thread with a small stack)
Init == i = 0
Next == IF i = 0 THEN i' \in 1..Min2(NCHAINS, NObs) ELSE i + NCHAINS <= NObs /\ i' = i + NCHAINS
Judged == i = 0 \/ Report(Obs[i])
=============================================================================
