------------------------------ MODULE GenCases ------------------------------
(***************************************************************************)
(* Enumerate a pattern family completely and write one JSON line per case  *)
(* (numbered AST, group count, names, flags, haystacks).  Environment:     *)
(* FAMILY (name), OUT (absolute path of the ndjson file to write).         *)
(* TLC is the enumerator, so the harness cannot silently skip part of a    *)
(* family: the line count must equal the cardinality printed here.         *)
(***************************************************************************)
EXTENDS Families, Json, IOUtils

FamilyName == IOEnv.FAMILY
OutFile == IOEnv.OUT

Raw == FamilyCases(FamilyName)

CaseOf(x) ==
  LET f == Finish(x.ast)
  IN [fam |-> FamilyName, ast |-> f.ast, ng |-> f.ng, names |-> f.names, fl |-> x.fl,
      sp |-> IF "sp" \in DOMAIN x THEN x.sp ELSE 0, hays |-> SetToSeq(x.hays)]

\* A numbered reference beyond the group count is not a backreference (Annex B reads it as an
\* octal escape, u-mode rejects it), so such trees are not patterns of the family.
WellReferenced(c) == MaxRef(c.ast) <= c.ng

CaseSeq == SetToSeq({c \in {CaseOf(x) : x \in Raw} : WellReferenced(c)})

ASSUME PrintT(<<"FAMILY", FamilyName, "cases", Len(CaseSeq)>>)
ASSUME ndJsonSerialize(OutFile, CaseSeq)

VARIABLE done
Init == done = TRUE
Next == UNCHANGED done
=============================================================================
