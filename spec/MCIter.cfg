CONSTANT MaxLen = 3
SPECIFICATION MCSpec
INVARIANT Increasing
INVARIANT Bounded
INVARIANT InRange
PROPERTY Fused
PROPERTY Exhausts
CHECK_DEADLOCK FALSE
