----------------------------- MODULE MCVMSpace -----------------------------
(***************************************************************************)
(* Model checking the two executor specifications on programs dumped from  *)
(* the real compiler, with the real Next relation (not run-to-completion): *)
(* every (program, pipeline, haystack, start boundary, executor) is an     *)
(* initial state and the machine's single transition is Step / PStep.      *)
(*                                                                         *)
(* Checked on every reachable state: the position / instruction-pointer /  *)
(* capture invariants and the stack bound; and, as a liveness property     *)
(* under weak fairness, that every run terminates.  The step counter is    *)
(* hidden from the state's identity (VIEW), so a run that revisits a       *)
(* configuration closes a cycle in the state graph and TLC reports it as   *)
(* a violation of Terminates - non-termination is found as a lasso, not as *)
(* a timeout; a run that keeps growing its stack instead violates the      *)
(* step bound (C05).                                                       *)
(* Input OBS: records of `runner sem --progs` (progs.opt / progs.noopt,    *)
(* hays).                                                                  *)
(***************************************************************************)
EXTENDS Bytecode, TLC, Json, IOUtils, FiniteSets

CONSTANT StepLimit

Obs == ndJsonDeserialize(IOEnv.OBS)
NObs == Len(Obs)

BT == INSTANCE BacktrackVM WITH Dev <- {"D8"}
PV == INSTANCE PikeVM WITH Dev <- {"D8"}

VARIABLES rec, which, hi, eng, vm
vars == <<rec, which, hi, eng, vm>>

P == Obs[rec].progs[which]
B == Utf8Seq(Obs[rec].hays[hi])
Boundaries(bytes) == {p \in 0..Len(bytes) : OnBoundary(bytes, p)}

Init ==
  /\ rec \in 1..NObs
  /\ which \in {"opt", "noopt"}
  /\ hi \in DOMAIN Obs[rec].hays
  /\ eng \in {"bt", "pv"}
  /\ \E p \in Boundaries(Utf8Seq(Obs[rec].hays[hi])) :
       vm = IF eng = "bt" THEN BT!InitState(Obs[rec].progs[which], p) ELSE PV!PInitState(Obs[rec].progs[which], p)

Running == vm.status = "run"

StepVM ==
  /\ Running
  /\ vm' = IF eng = "bt" THEN BT!Step(P, B, vm) ELSE PV!PStep(P, B, vm)
  /\ UNCHANGED <<rec, which, hi, eng>>

Spec == Init /\ [][StepVM]_vars /\ WF_vars(StepVM)

\* the step counter does not identify a configuration
View == <<rec, which, hi, eng, [vm EXCEPT !.steps = 0]>>

PosInRangeInv == IF eng = "bt" THEN BT!PosInRange(B, vm) ELSE PV!PPosInRange(B, vm)
PosOnBoundaryInv == Running => IF eng = "bt" THEN BT!PosOnBoundary(P, B, vm) ELSE PV!PPosOnBoundary(P, B, vm)
IpInRangeInv == (Running /\ eng = "bt") => BT!IpInRange(P, vm)
GroupsInv == eng = "bt" => BT!GroupsWellFormed(B, vm)
StackBoundInv ==
  Running => IF eng = "bt" THEN BT!StackDepth(vm) <= 2 + (3 + P.groups) * vm.steps
             ELSE PV!PThreadCount(vm) <= 2 + vm.steps
\* a run whose stack keeps growing never revisits a configuration: it is caught by the step bound
StepsBounded == vm.steps <= StepLimit
Terminates == <>(~Running)
=============================================================================
