CONSTANT Threads <- T2
CONSTANT Queue <- Queue2
CONSTANT Steps <- Steps2
CONSTANT SharedScratch = TRUE
SPECIFICATION Spec
INVARIANT ResultsSequential
INVARIANT EmitSchedule
PROPERTY ProgImmutable
PROPERTY Terminates
CHECK_DEADLOCK FALSE
