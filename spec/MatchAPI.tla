------------------------------ MODULE MatchAPI ------------------------------
(***************************************************************************)
(* The accessors of a Match as functions of (range, captures, names).      *)
(*   range    = <<s, e>>                                                   *)
(*   caps     = sequence of <<s, e>> or None == <<-1, -1>>, one per        *)
(*              capturing group in left-parenthesis order                  *)
(*   names    = sequence of group names (code point sequences, <<>> for an *)
(*              unnamed group), same length as caps                        *)
(* A name may be carried by several groups (in different alternatives); at *)
(* most one of them participates in a match and the named accessors report *)
(* that one.                                                               *)
(***************************************************************************)
EXTENDS Naturals, Integers, Sequences, FiniteSets, SequencesExt

NoneR == <<-1, -1>>

Group(range, caps, i) == IF i = 0 THEN range ELSE IF i <= Len(caps) THEN caps[i] ELSE NoneR

Groups(range, caps) == <<range>> \o caps

\* the value of a name: the participating group among those carrying it
NamedGroup(caps, names, nm) ==
  IF nm = <<>> THEN NoneR
  ELSE LET S == {g \in DOMAIN names : names[g] = nm /\ caps[g] # NoneR}
       IN IF S = {} THEN NoneR ELSE caps[CHOOSE g \in S : \A g2 \in S : g <= g2]

\* distinct names in order of first occurrence
RECURSIVE DistinctNames(_, _, _)
DistinctNames(names, k, seen) ==
  IF k > Len(names) THEN <<>>
  ELSE IF names[k] = <<>> \/ names[k] \in seen THEN DistinctNames(names, k + 1, seen)
  ELSE <<names[k]>> \o DistinctNames(names, k + 1, seen \cup {names[k]})

NamedGroups(caps, names) ==
  LET dn == DistinctNames(names, 1, {})
  IN [k \in DOMAIN dn |-> <<dn[k], NamedGroup(caps, names, dn[k])>>]

\* At most one group of a name participates (a theorem about ECMAScript patterns with
\* duplicate names, checked on every observation).
AtMostOneParticipant(caps, names) ==
  \A nm \in {names[g] : g \in DOMAIN names} \ {<<>>} :
    Cardinality({g \in DOMAIN names : names[g] = nm /\ caps[g] # NoneR}) <= 1
=============================================================================
