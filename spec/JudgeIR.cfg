INIT Init
NEXT Next
INVARIANT Judged
CHECK_DEADLOCK FALSE
