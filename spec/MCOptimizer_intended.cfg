SPECIFICATION Spec
CONSTANT RepeatRounds <- TrueConst
INVARIANT Preserved
INVARIANT WellFormedOK
PROPERTY Terminates
CHECK_DEADLOCK FALSE
