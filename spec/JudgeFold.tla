------------------------------ MODULE JudgeFold ------------------------------
(***************************************************************************)
(* C10: judge the records of `runner fold` against Fold.tla with the       *)
(* oracle classes as the relation.  ORACLE: the JSON file written by       *)
(* harness/oracle; OBS: ndjson written by the runner.                      *)
(* A difference is printed with the named deviation that explains it, if   *)
(* any (D8: see ESSem), or "undecided" when it only concerns code points   *)
(* the oracle cannot speak for (assigned after Unicode 16; supplementary    *)
(* code points without u/v, where the standard works on UTF-16 code units).*)
(***************************************************************************)
EXTENDS Fold, TLC, Json, IOUtils, SequencesExt

Oracle == JsonDeserialize(IOEnv.ORACLE)
Obs == ndJsonDeserialize(IOEnv.OBS)
NObs == Len(Obs)
NCHAINS == 16
Min2(a, b) == IF a < b THEN a ELSE b


OScf == {ToSet(Oracle.scf_classes[k]) : k \in DOMAIN Oracle.scf_classes}
OLegacy == {ToSet(Oracle.legacy_classes[k]) : k \in DOMAIN Oracle.legacy_classes}
NewIn17 == ToSet(Oracle.new_in_17)


\* D8, second half: the 58 code points whose legacy upper-casing the engine's table gets from the
\* simple mapping where the full mapping is multi-character (Greek with iota subscript).
D8Greek == (8064..8111) \cup {8115, 8124, 8131, 8140, 8179, 8188}

Undecided(uni, S) == (S \cap NewIn17 # {}) \/ (~uni /\ \E c \in S : c > 65535)

\* classify a difference on the set S of code points it concerns
Why(uni, S, d8ok) ==
  IF Undecided(uni, S) THEN "undecided"
  ELSE IF ~uni /\ d8ok THEN "D8" ELSE ""

PartitionDiffs(r) ==
  LET uni == r.mode = "u"
      eng == {ToSet(r.classes[k]) : k \in DOMAIN r.classes}
      ora == IF uni THEN OScf ELSE OLegacy
      diff == (eng \ ora) \cup (ora \ eng)
  IN { [kind |-> "fold", what |-> "partition of " \o r.mech \o " (" \o r.mode \o ")", cls |-> SetToSeq(cl),
        engine |-> cl \in eng, why |-> Why(uni, cl, cl \cap D8Greek # {})] : cl \in diff }
     \cup (IF "odd" \in DOMAIN r /\ r.odd # <<>>
           THEN {[kind |-> "fold", what |-> r.mech \o " is not reflexive/symmetric", cls |-> r.odd, engine |-> TRUE, why |-> ""]}
           ELSE {})

ClosureDiffs(r) ==
  LET got == UNION {(r.result[k][1])..(r.result[k][2]) : k \in DOMAIN r.result}
      exp == Closure(TRUE, (r.iv[1])..(r.iv[2]))
      d == (got \ exp) \cup (exp \ got)
  IN IF d = {} THEN {}
     ELSE {[kind |-> "fold", what |-> "closure of an interval", cls |-> SetToSeq(d), engine |-> TRUE, why |-> Why(TRUE, d, FALSE)]}

RxDiffs(r) ==
  LET uni == r.flags # "i"
      cand == ToSet(r.cand)
      exp == cand \cap ClassOf(uni, r.c)
      \* what D8 explains without u/v: classes closed under simple case folding
      expD8cls == cand \cap ClassOf(TRUE, r.c)
      One(mech, got) ==
        IF got = exp THEN {}
        ELSE {[kind |-> "fold", what |-> mech \o " /" \o r.flags, cls |-> <<r.c>>, engine |-> TRUE,
               exp |-> SetToSeq(exp), got |-> SetToSeq(got),
               why |-> Why(uni, {r.c} \cup got \cup exp,
                           (mech \in {"cls", "ncls"} /\ got = expD8cls) \/ (r.c \in D8Greek \/ got \cap D8Greek # {}))]}
  IN One("lit", ToSet(r.lit)) \cup One("cls", ToSet(r.cls)) \cup One("ncls", ToSet(r.ncls))
     \cup One("bref", ToSet(r.bref)) \cup One("bref_lb", ToSet(r.bref_lb))

WordDiffs(r) ==
  LET icase == \E k \in 1..Len(r.flags) : SubSeq(r.flags, k, k) = "i"
      uni == \E k \in 1..Len(r.flags) : SubSeq(r.flags, k, k) \in {"u", "v"}
      exp == WordChars(icase, uni)
      One(name, got) == IF got = exp THEN {}
                        ELSE {[kind |-> "fold", what |-> "word characters by " \o name \o " /" \o r.flags,
                               cls |-> SetToSeq((got \ exp) \cup (exp \ got)), engine |-> TRUE,
                               \* D8: without u the word set is closed under simple case folding
                               why |-> IF icase /\ ~uni /\ got = WordChars(TRUE, TRUE) THEN "D8" ELSE ""]}
  IN One("\\w", ToSet(r.w)) \cup One("\\W", ToSet(r.W)) \cup One("[\\w]", ToSet(r.cw)) \cup One("[\\W]", ToSet(r.cW))
     \cup One("\\b", ToSet(r.b))

Diffs(r) ==
  CASE r.kind = "partition" -> PartitionDiffs(r)
    [] r.kind = "closure" -> ClosureDiffs(r)
    [] r.kind = "rx" -> RxDiffs(r)
    [] r.kind = "word" -> WordDiffs(r)
    [] r.kind = "rxfail" -> {[kind |-> "fold", what |-> "pattern did not compile /" \o r.flags, cls |-> <<r.c>>, engine |-> TRUE, why |-> ""]}

Report(k) ==
  LET r == Obs[k]
      d == Diffs(r)
  IN /\ \A m \in d : PrintT("J " \o ToJson(m))
     /\ PrintT("J " \o ToJson([kind |-> "foldstat", id |-> k, rk |-> r.kind, mism |-> Cardinality(d)]))

ASSUME ClassesDisjoint(OScf) /\ ClassesDisjoint(OLegacy)

VARIABLE i
\* (the first state judges nothing: TLC evaluates initial states on a thread with a small stack)
Init == i = 0
Next == IF i = 0 THEN i' \in 1..Min2(NCHAINS, NObs) ELSE i + NCHAINS <= NObs /\ i' = i + NCHAINS
Judged == i = 0 \/ Report(i)
=============================================================================
