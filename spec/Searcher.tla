------------------------------ MODULE Searcher ------------------------------
(***************************************************************************)
(* The std::str::pattern Searcher / ReverseSearcher contract for a regex   *)
(* searcher (C20), as a state machine.                                     *)
(*                                                                         *)
(* Per run: hlen, the haystack's length in bytes; ms, the sequence of      *)
(* matches <<start, end>> that find_iter yields on it (increasing,         *)
(* non-overlapping, an empty match allowed where the previous match ended  *)
(* only if that one was not empty: the lastIndex rule of C09).             *)
(*                                                                         *)
(* Forward: next() emits Reject(fpos, m.start) if the next match starts    *)
(* beyond what has been emitted, else Match(m.start, m.end); after the     *)
(* last match Reject(fpos, Len) if anything is left, then Done for ever.   *)
(* Reverse: the mirror image from the right end over the same matches.     *)
(* The two cursors are independent (the type is not a DoubleEndedSearcher).*)
(***************************************************************************)
EXTENDS Naturals, Integers, Sequences

VARIABLES hlen, ms,              \* the haystack's byte length and its match sequence (fixed in a run)
          fpos, fidx, fdone,      \* forward: emitted up to fpos, fidx matches emitted, Done returned
          bpos, bidx, bdone,      \* reverse: emitted down to bpos, bidx matches emitted
          out                     \* the last step returned: [dir, k, a, b]
vars == <<hlen, ms, fpos, fidx, fdone, bpos, bidx, bdone, out>>

DoneStep == [k |-> "D", a |-> -1, b |-> -1]

ExpFwd ==
  IF fdone THEN DoneStep
  ELSE IF fidx < Len(ms)
       THEN LET m == ms[fidx + 1] IN
            IF fpos < m[1] THEN [k |-> "R", a |-> fpos, b |-> m[1]] ELSE [k |-> "M", a |-> m[1], b |-> m[2]]
       ELSE IF fpos < hlen THEN [k |-> "R", a |-> fpos, b |-> hlen] ELSE DoneStep

ExpBack ==
  IF bdone THEN DoneStep
  ELSE IF bidx < Len(ms)
       THEN LET m == ms[Len(ms) - bidx] IN
            IF m[2] < bpos THEN [k |-> "R", a |-> m[2], b |-> bpos] ELSE [k |-> "M", a |-> m[1], b |-> m[2]]
       ELSE IF bpos > 0 THEN [k |-> "R", a |-> 0, b |-> bpos] ELSE DoneStep

InitWith(L, M) ==
        /\ hlen = L /\ ms = M
        /\ fpos = 0 /\ fidx = 0 /\ fdone = FALSE
        /\ bpos = L /\ bidx = 0 /\ bdone = FALSE
        /\ out = [dir |-> "none", k |-> "D", a |-> -1, b |-> -1]

\* a new searcher over a haystack of L bytes with match sequence M (used by the trace specification)
Reset(L, M) ==
        /\ hlen' = L /\ ms' = M
        /\ fpos' = 0 /\ fidx' = 0 /\ fdone' = FALSE
        /\ bpos' = L /\ bidx' = 0 /\ bdone' = FALSE
        /\ out' = [dir |-> "none", k |-> "D", a |-> -1, b |-> -1]

NextFwd ==
  LET e == ExpFwd IN
  /\ fpos' = IF e.k = "D" THEN fpos ELSE e.b
  /\ fidx' = IF e.k = "M" THEN fidx + 1 ELSE fidx
  /\ fdone' = (e.k = "D")
  /\ out' = [dir |-> "fwd", k |-> e.k, a |-> e.a, b |-> e.b]
  /\ UNCHANGED <<hlen, ms, bpos, bidx, bdone>>

NextBack ==
  LET e == ExpBack IN
  /\ bpos' = IF e.k = "D" THEN bpos ELSE e.a
  /\ bidx' = IF e.k = "M" THEN bidx + 1 ELSE bidx
  /\ bdone' = (e.k = "D")
  /\ out' = [dir |-> "back", k |-> e.k, a |-> e.a, b |-> e.b]
  /\ UNCHANGED <<hlen, ms, fpos, fidx, fdone>>

Next == NextFwd \/ NextBack

(***************************************************************************)
(* The contract, as invariants and action properties of the machine.       *)
(***************************************************************************)
\* every step is a non-empty-or-match range inside the haystack
StepOk == out.k # "D" => (0 <= out.a /\ out.a <= out.b /\ out.b <= hlen /\ (out.k = "R" => out.a < out.b))
\* forward steps are adjacent: each begins where the previous one ended (action property)
FwdAdjacent == [][NextFwd /\ out'.k # "D" => out'.a = fpos]_vars
BackAdjacent == [][NextBack /\ out'.k # "D" => out'.b = bpos]_vars
\* Done only when the whole haystack is covered and every match was reported; Done is absorbing
DoneMeansCovered == (fdone => fpos = hlen /\ fidx = Len(ms)) /\ (bdone => bpos = 0 /\ bidx = Len(ms))
DoneAbsorbing == [][(fdone => fdone' \/ ~NextFwd) /\ (bdone => bdone' \/ ~NextBack)]_vars
\* both directions finish
Terminates == <>fdone /\ <>bdone

(***************************************************************************)
(* What the str methods built on the searcher return, as functions of the  *)
(* match sequence (offsets; -1 = None).                                    *)
(***************************************************************************)
Find == IF ms = <<>> THEN -1 ELSE ms[1][1]
RFind == IF ms = <<>> THEN -1 ELSE ms[Len(ms)][1]
Contains == ms # <<>>
MatchIndices == ms
RMatchIndices == [k \in DOMAIN ms |-> ms[Len(ms) + 1 - k]]
\* the pieces between matches, as ranges
Split == [k \in 1..(Len(ms) + 1) |-> <<IF k = 1 THEN 0 ELSE ms[k - 1][2], IF k = Len(ms) + 1 THEN hlen ELSE ms[k][1]>>]
RSplit == [k \in 1..(Len(ms) + 1) |-> Split[Len(ms) + 2 - k]]
StartsWith == ms # <<>> /\ ms[1][1] = 0
EndsWith == ms # <<>> /\ ms[Len(ms)][2] = hlen
RECURSIVE TrimStartFrom(_, _), TrimEndFrom(_, _)
\* trim_start_matches: skip the matches that tile a prefix; the offset where the rest begins
TrimStartFrom(k, pos) == IF k <= Len(ms) /\ ms[k][1] = pos THEN TrimStartFrom(k + 1, ms[k][2]) ELSE pos
TrimStart == TrimStartFrom(1, 0)
TrimEndFrom(k, pos) == IF k >= 1 /\ ms[k][2] = pos THEN TrimEndFrom(k - 1, ms[k][1]) ELSE pos
TrimEnd == TrimEndFrom(Len(ms), hlen)
=============================================================================
