-------------------------------- MODULE ESSem --------------------------------
(***************************************************************************)
(* Reference semantics of ECMAScript patterns (ECMA-262, 22.2.2 "Pattern   *)
(* Semantics"), on code point sequences.                                   *)
(*                                                                         *)
(* The standard defines a pattern as a matcher that takes a state and a    *)
(* continuation and explores alternatives in priority order.  Here a       *)
(* matcher is the *sequence of all its successful end states in priority   *)
(* order*:  Run(n, st, fwd, h, env) \in Seq(State).  Calling a              *)
(* continuation c on each result in turn until one succeeds is then just   *)
(* "the first element of the flat-map", so                                 *)
(*     m(x, c)  =  Head(FlatMap(c, Run(m, x)))                             *)
(* and every clause of the standard becomes a list equation.               *)
(*                                                                         *)
(* AST nodes are records with a field t:                                   *)
(*   empty | chr c | dot | esc e | cls neg items | cat xs | alt xs         *)
(*   grp id b | ncg b | mod b add rem | rep b min max greedy               *)
(*   bref n | kref ids | look b behind neg | bol | eol | wb neg            *)
(*   prop name neg (\p{..}) | vcls neg x (a class set, see ClassSet.tla)   *)
(* Group ids are 0-based in left-parenthesis order; max = -1 is infinity.  *)
(* env = [i, m, s, u, v, dev]: ignoreCase, multiline, dotAll, unicode-or-v, unicodeSets,    *)
(* deviations.                                                             *)
(* A state is [p |-> position (0..Len(h)), c |-> captures], captures being *)
(* a sequence of <<start, end>> pairs or Undef.                            *)
(***************************************************************************)
EXTENDS ClassSet, SequencesExt, Functions

Undef == <<-1, -1>>

FlatMap(F(_), seq) == FoldLeft(LAMBDA acc, r : acc \o F(r), <<>>, seq)

SeqToSet(s) == {s[i] : i \in DOMAIN s}

RECURSIVE GroupsIn(_)
\* The capture groups (0-based ids) contained in a node.
GroupsIn(n) ==
  CASE n.t = "grp" -> {n.id} \cup GroupsIn(n.b)
    [] n.t \in {"cat", "alt"} -> UNION {GroupsIn(n.xs[k]) : k \in DOMAIN n.xs}
    [] n.t \in {"ncg", "rep", "look", "mod"} -> GroupsIn(n.b)
    [] OTHER -> {}

(***************************************************************************)
(* Named deviations.  env.dev is a set of names of *known, recorded*       *)
(* defects of the implementation (known_findings.json).  With env.dev = {} *)
(* everything below is the standard.  A deviation changes the semantics to *)
(* what the code is known to do, so that an observation can be classified  *)
(* as "exactly that known defect" instead of being waved through:          *)
(*  D8  legacy (non-u) ignoreCase closes classes and class escapes under   *)
(*      simple case *folding* instead of the legacy relation (so [k]       *)
(*      matches U+212A and [s] matches U+017F); negated class escapes are  *)
(*      complemented after that closure.                                   *)
(*  D9  a named backreference to a duplicated name is an alternation of    *)
(*      numbered backreferences (an undefined one matches empty first).    *)
(*  D10 under iu/iv a \W inside a bracket is the complement of the basic   *)
(*      word characters, taken before the class is closed under folding.   *)
(***************************************************************************)
D8On(env) == "D8" \in env.dev /\ env.i /\ ~env.u
D10On(env) == "D10" \in env.dev /\ env.i /\ env.u

\* (literals and backreferences follow the standard since the ASCII guard was repaired)
LegacyCanonDev(c) == LegacyCanon(c)

\* Canonicalize as applied to literals and backreferences.
CanonX(c, env) == IF D8On(env) THEN LegacyCanonDev(c) ELSE Canon(c, env.i, env.u)
\* The characters that canonicalize like ch, as applied to classes.
EqX(ch, env) == IF D8On(env) THEN EqClass(ch, TRUE, TRUE) ELSE EqClass(ch, env.i, env.u)

(***************************************************************************)
(* Character classes.                                                      *)
(***************************************************************************)
EscapeHas(e, d, env) ==
  CASE e = "d" -> IsDigitCp(d)
    [] e = "D" -> ~IsDigitCp(d)
    [] e = "w" -> IsWordCp(d, env.i, env.u)
    [] e = "W" -> IF D10On(env) THEN ~IsBasicWordCp(d)
                  ELSE IF D8On(env) THEN ~(\E x \in EqClass(d, TRUE, TRUE) : IsBasicWordCp(x))
                  ELSE ~IsWordCp(d, env.i, env.u)
    [] e = "s" -> d \in WhiteSpaceChars
    [] e = "S" -> d \notin WhiteSpaceChars

ItemHas(it, d, env) ==
  CASE it.k = "c" -> d = it.c
    [] it.k = "r" -> it.lo <= d /\ d <= it.hi
    [] it.k = "e" -> EscapeHas(it.e, d, env)
    [] it.k = "p" -> (d \in PropSet(it.name)) # it.neg

\* CharacterSetMatcher: "there exists a member a of A such that
\* Canonicalize(a) = Canonicalize(ch)".
ClassFound(items, ch, env) ==
  \E d \in EqX(ch, env) : \E k \in DOMAIN items : ItemHas(items[k], d, env)

Positive(e) == CASE e = "D" -> "d" [] e = "W" -> "w" [] e = "S" -> "s" [] OTHER -> e

\* Does the one-character node n accept ch?
CharOk(n, ch, env) ==
  CASE n.t = "chr" -> CanonX(n.c, env) = CanonX(ch, env)
    [] n.t = "dot" -> env.s \/ ch \notin LineTerminators
    [] n.t = "esc" ->
         IF D8On(env) /\ n.e \in {"D", "W", "S"}
         THEN ~(\E d \in EqX(ch, env) : EscapeHas(Positive(n.e), d, env))
         ELSE \E d \in EqX(ch, env) : EscapeHas(n.e, d, [env EXCEPT !.dev = {}])
    [] n.t = "cls" ->
         \* with v the class is a class set: the union of its items, computed on folded code points
         IF env.v THEN SetHas(ClassValue(n.neg, [k |-> "u", xs |-> n.items], env.i).cs, ch, env.i)
         ELSE ClassFound(n.items, ch, env) # n.neg
    [] n.t = "prop" ->
         \* \p{..} / \P{..} outside a class: with v the complement is taken on folded code points,
         \* with u it is the plain complement followed by the canonical comparison
         IF env.v THEN SetHas(Denote([k |-> "p", name |-> n.name, neg |-> n.neg], env.i).cs, ch, env.i)
         ELSE \E d \in EqX(ch, env) : (d \in PropSet(n.name)) # n.neg
    [] n.t = "set" -> SetHas(n.cs, ch, env.i)

IsCharNode(n) == n.t \in {"chr", "dot", "esc", "cls", "prop", "set"}

\* A class set [..] under v with strings is the alternation of its strings, longest first, then
\* its single code points, then the empty string (22.2.2.9, CharacterClass with strings).
VclsNode(n, env) ==
  LET val == ClassValue(n.neg, n.x, env.i)
      strs == SortByLenDesc({t \in val.ss : Len(t) >= 2})
      alts == [k \in DOMAIN strs |-> [t |-> "cat", xs |-> [j \in DOMAIN strs[k] |-> [t |-> "chr", c |-> strs[k][j]]]]]
      single == <<[t |-> "set", cs |-> val.cs]>>
      empty == IF <<>> \in val.ss THEN <<[t |-> "empty"]>> ELSE <<>>
  IN [t |-> "alt", xs |-> alts \o single \o empty]

WordAt(h, k, env) == k >= 1 /\ k <= Len(h) /\ IsWordCp(h[k], env.i, env.u)

RECURSIVE Prepare(_, _)
\* Evaluate every class set of a tree once (its value depends only on the i flag in force
\* at that point), so that matching does not recompute it per character.
Prepare(n, env) ==
  CASE n.t = "vcls" -> VclsNode(n, env)
    [] n.t = "cls" /\ env.v -> [t |-> "set", cs |-> ClassValue(n.neg, [k |-> "u", xs |-> n.items], env.i).cs]
    [] n.t = "prop" /\ env.v -> [t |-> "set", cs |-> Denote([k |-> "p", name |-> n.name, neg |-> n.neg], env.i).cs]
    [] n.t = "mod" ->
         LET on(f, cur) == IF \E k \in DOMAIN n.add : n.add[k] = f THEN TRUE
                           ELSE IF \E k \in DOMAIN n.rem : n.rem[k] = f THEN FALSE ELSE cur
         IN [n EXCEPT !.b = Prepare(n.b, [env EXCEPT !.i = on("i", env.i)])]
    [] n.t \in {"grp", "ncg", "rep", "look"} -> [n EXCEPT !.b = Prepare(n.b, env)]
    [] n.t \in {"cat", "alt"} -> [n EXCEPT !.xs = [k \in DOMAIN n.xs |-> Prepare(n.xs[k], env)]]
    [] OTHER -> n

(***************************************************************************)
(* The matchers.                                                           *)
(***************************************************************************)
RECURSIVE Run(_, _, _, _, _), CatRun(_, _, _, _, _, _), Rep(_, _, _, _, _, _, _, _, _)

Run(n, st, fwd, h, env) ==
  LET pos == st.p IN
  CASE n.t = "empty" -> <<st>>
    [] IsCharNode(n) ->
         IF (fwd /\ pos >= Len(h)) \/ (~fwd /\ pos <= 0) THEN <<>>
         ELSE LET ch == IF fwd THEN h[pos + 1] ELSE h[pos]
                  np == IF fwd THEN pos + 1 ELSE pos - 1
              IN IF CharOk(n, ch, env) THEN <<[st EXCEPT !.p = np]>> ELSE <<>>
    [] n.t = "vcls" -> Run(VclsNode(n, env), st, fwd, h, env)
    [] n.t = "cat" -> CatRun(IF fwd THEN n.xs ELSE Reverse(n.xs), 1, st, fwd, h, env)
    [] n.t = "alt" -> FlatMap(LAMBDA x : Run(x, st, fwd, h, env), n.xs)
    [] n.t = "ncg" -> Run(n.b, st, fwd, h, env)
    [] n.t = "mod" ->
         LET on(f, cur) == IF f \in SeqToSet(n.add) THEN TRUE
                           ELSE IF f \in SeqToSet(n.rem) THEN FALSE ELSE cur
             env2 == [env EXCEPT !.i = on("i", env.i), !.m = on("m", env.m), !.s = on("s", env.s)]
         IN Run(n.b, st, fwd, h, env2)
    [] n.t = "grp" ->
         LET rs == Run(n.b, st, fwd, h, env)
         IN [k \in DOMAIN rs |->
               [rs[k] EXCEPT !.c[n.id + 1] = IF fwd THEN <<pos, rs[k].p>> ELSE <<rs[k].p, pos>>]]
    [] n.t = "rep" -> Rep(n.b, n.min, n.max, n.greedy, GroupsIn(n.b), st, fwd, h, env)
    [] n.t = "kref" /\ "D9" \in env.dev /\ Len(n.ids) > 1 ->
         FlatMap(LAMBDA g : Run([t |-> "bref", n |-> g + 1], st, fwd, h, env), n.ids)
    [] n.t \in {"bref", "kref"} ->
         \* BackreferenceMatcher.  A numbered reference names one group; a named one
         \* names every group carrying the name, of which at most one is defined.
         LET ids == IF n.t = "bref" THEN {n.n - 1} ELSE SeqToSet(n.ids)
             defd == {g \in ids : st.c[g + 1] # Undef}
         IN IF defd = {} THEN <<st>>
            ELSE LET r == st.c[(CHOOSE g \in defd : TRUE) + 1]
                     len == r[2] - r[1]
                     f == IF fwd THEN pos + len ELSE pos - len
                     g0 == IF fwd THEN pos ELSE f
                 IN IF f < 0 \/ f > Len(h) THEN <<>>
                    ELSE IF \A k \in 1..len :
                              CanonX(h[r[1] + k], env) = CanonX(h[g0 + k], env)
                         THEN <<[st EXCEPT !.p = f]>> ELSE <<>>
    [] n.t = "look" ->
         \* The body runs with the identity continuation: only its first result counts
         \* and it is never re-entered.
         LET rs == Run(n.b, st, ~n.behind, h, env) IN
         IF n.neg THEN (IF rs = <<>> THEN <<st>> ELSE <<>>)
         ELSE (IF rs = <<>> THEN <<>> ELSE <<[st EXCEPT !.c = rs[1].c]>>)
    [] n.t = "bol" ->
         IF pos = 0 \/ (env.m /\ h[pos] \in LineTerminators) THEN <<st>> ELSE <<>>
    [] n.t = "eol" ->
         IF pos = Len(h) \/ (env.m /\ h[pos + 1] \in LineTerminators) THEN <<st>> ELSE <<>>
    [] n.t = "wb" ->
         LET a == WordAt(h, pos, env)
             b == WordAt(h, pos + 1, env)
         IN IF (a # b) # n.neg THEN <<st>> ELSE <<>>

CatRun(xs, k, st, fwd, h, env) ==
  IF k > Len(xs) THEN <<st>>
  ELSE FlatMap(LAMBDA r : CatRun(xs, k + 1, r, fwd, h, env), Run(xs[k], st, fwd, h, env))

\* RepeatMatcher.  mx = -1 is infinity.
Rep(b, mn, mx, greedy, gs, st, fwd, h, env) ==
  IF mx = 0 THEN <<st>>
  ELSE LET st1 == [st EXCEPT !.c = [k \in DOMAIN st.c |-> IF (k - 1) \in gs THEN Undef ELSE st.c[k]]]
           iter == FlatMap(LAMBDA r :
                              IF mn = 0 /\ r.p = st.p THEN <<>>
                              ELSE Rep(b, IF mn = 0 THEN 0 ELSE mn - 1,
                                       IF mx = -1 THEN -1 ELSE mx - 1, greedy, gs, r, fwd, h, env),
                           Run(b, st1, fwd, h, env))
       IN IF mn > 0 THEN iter
          ELSE IF greedy THEN iter \o <<st>> ELSE <<st>> \o iter

(***************************************************************************)
(* Matching a whole pattern.                                               *)
(***************************************************************************)
NoMatch == <<>>

\* An anchored attempt at index p: NoMatch, or <<range, cap1, ..., capN>>.
Attempt(ast, ng, h, env, p) ==
  LET rs == Run(ast, [p |-> p, c |-> [k \in 1..ng |-> Undef]], TRUE, h, env)
  IN IF rs = <<>> THEN NoMatch ELSE << <<p, rs[1].p>> >> \o rs[1].c

\* All anchored attempts of a haystack, indexed 1..Len(h)+1 for positions 0..Len(h).
Attempts(ast, ng, h, env) == [q \in 1..(Len(h) + 1) |-> Attempt(ast, ng, h, env, q - 1)]

RECURSIVE FirstAtOrAfter(_, _, _)
\* RegExpBuiltinExec: the first index >= cur at which an attempt succeeds.
FirstAtOrAfter(att, n, cur) ==
  IF cur > n THEN NoMatch
  ELSE IF att[cur + 1] # NoMatch THEN att[cur + 1]
  ELSE FirstAtOrAfter(att, n, cur + 1)

RECURSIVE Unfold(_, _, _)
\* Iteration with the lastIndex rule: continue at the end of a non-empty match and
\* one character past an empty one.
Unfold(att, n, cur) ==
  LET m == FirstAtOrAfter(att, n, cur) IN
  IF m = NoMatch THEN <<>>
  ELSE LET s == m[1][1]  e == m[1][2]
       IN <<m>> \o Unfold(att, n, IF e = s THEN e + 1 ELSE e)

\* Every match of the pattern in h from every start index 0..Len(h)+1
\* (a start beyond the end yields nothing).
AllMatchesFromEveryStart(ast, ng, h, env) ==
  LET att == Attempts(ast, ng, h, env)
  IN [s1 \in 1..(Len(h) + 2) |-> Unfold(att, Len(h), s1 - 1)]

AllMatches(ast, ng, h, env, start) == Unfold(Attempts(ast, ng, h, env), Len(h), start)
FirstMatch(ast, ng, h, env, start) == FirstAtOrAfter(Attempts(ast, ng, h, env), Len(h), start)

(***************************************************************************)
(* Cost of the reference search: the number of matcher invocations, used   *)
(* as the yardstick for the executors' step counts.                        *)
(***************************************************************************)
RECURSIVE Cost(_, _, _, _, _), CatCost(_, _, _, _, _, _), RepCost(_, _, _, _, _, _, _, _, _)

Cost(n, st, fwd, h, env) ==
  CASE n.t = "cat" -> 1 + CatCost(IF fwd THEN n.xs ELSE Reverse(n.xs), 1, st, fwd, h, env)
    [] n.t = "alt" -> 1 + FoldLeft(LAMBDA acc, x : acc + Cost(x, st, fwd, h, env), 0, n.xs)
    [] n.t = "vcls" -> Cost(VclsNode(n, env), st, fwd, h, env)
    [] n.t \in {"ncg", "grp", "mod"} -> 1 + Cost(n.b, st, fwd, h, env)
    [] n.t = "look" -> 1 + Cost(n.b, st, ~n.behind, h, env)
    [] n.t = "rep" -> 1 + RepCost(n.b, n.min, n.max, n.greedy, GroupsIn(n.b), st, fwd, h, env)
    [] OTHER -> 1

CatCost(xs, k, st, fwd, h, env) ==
  IF k > Len(xs) THEN 0
  ELSE Cost(xs[k], st, fwd, h, env)
       + FoldLeft(LAMBDA acc, r : acc + CatCost(xs, k + 1, r, fwd, h, env), 0,
                  Run(xs[k], st, fwd, h, env))

RepCost(b, mn, mx, greedy, gs, st, fwd, h, env) ==
  IF mx = 0 THEN 0
  ELSE LET st1 == [st EXCEPT !.c = [k \in DOMAIN st.c |-> IF (k - 1) \in gs THEN Undef ELSE st.c[k]]]
       IN Cost(b, st1, fwd, h, env)
          + FoldLeft(LAMBDA acc, r :
                       acc + (IF mn = 0 /\ r.p = st.p THEN 1
                              ELSE 1 + RepCost(b, IF mn = 0 THEN 0 ELSE mn - 1,
                                               IF mx = -1 THEN -1 ELSE mx - 1, greedy, gs, r, fwd, h, env)),
                     0, Run(b, st1, fwd, h, env))

\* Cost of the whole search from start 0: one attempt per index.
SearchCost(ast, ng, h, env) ==
  FoldLeft(LAMBDA acc, q :
             acc + Cost(ast, [p |-> q - 1, c |-> [k \in 1..ng |-> Undef]], TRUE, h, env),
           0, [q \in 1..(Len(h) + 1) |-> q])
=============================================================================
