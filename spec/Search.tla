------------------------------- MODULE Search -------------------------------
(***************************************************************************)
(* The leftmost search of one next_match call (classicalbacktrack.rs       *)
(* next_match_with_prefix_search / next_match_anchored, pikevm.rs          *)
(* next_match) as a state machine: the refinement of Iter!FirstFrom into   *)
(* prefix-search steps and anchored attempts.                              *)
(*                                                                         *)
(* Per run: hlen; att[p+1], what an anchored attempt at position p yields  *)
(* (its end, or None); adm[p+1], whether the start predicate admits p;     *)
(* anchored, whether the predicate is StartAnchored (then exactly one      *)
(* attempt is made, at the position given); start.                         *)
(* Actions: Seek (the prefix search moves to the next admitted position or *)
(* gives up), Try (one anchored attempt; on failure move one character).   *)
(*                                                                         *)
(* Sound states what C04 demands of a predicate; under it the search finds *)
(* the leftmost match (Leftmost), attempts are made in increasing order    *)
(* and no admitted position is passed over.  MCSearch checks this for      *)
(* every table; MCSearchBad drops Sound and TLC must exhibit the skipped   *)
(* match.  MCVM binds it: the attempt-start events of every recorded run   *)
(* must be the Try steps of this machine (kind "search").                  *)
(***************************************************************************)
EXTENDS Naturals, Integers, Sequences

None == -1

VARIABLES hlen, att, adm, anchored, start, pos, phase, result, tried
svars == <<hlen, att, adm, anchored, start, pos, phase, result, tried>>

SInitWith(L, A, D, anch, s) ==
  /\ hlen = L /\ att = A /\ adm = D /\ anchored = anch /\ start = s
  /\ pos = s /\ phase = "seek" /\ result = None /\ tried = <<>>

\* the least admitted position >= c, or None
RECURSIVE NextAdmitted(_, _, _)
NextAdmitted(D, L, c) == IF c > L THEN None ELSE IF D[c + 1] THEN c ELSE NextAdmitted(D, L, c + 1)

RECURSIVE SFirstFrom(_, _, _)
SFirstFrom(A, L, c) == IF c > L THEN None ELSE IF A[c + 1] # None THEN c ELSE SFirstFrom(A, L, c + 1)

Seek ==
  /\ phase = "seek"
  /\ IF anchored THEN phase' = "try" /\ pos' = pos
     ELSE LET q == NextAdmitted(adm, hlen, pos) IN
          IF q = None THEN phase' = "exhausted" /\ pos' = pos ELSE phase' = "try" /\ pos' = q
  /\ UNCHANGED <<hlen, att, adm, anchored, start, result, tried>>

Try ==
  /\ phase = "try"
  /\ tried' = Append(tried, pos)
  /\ IF att[pos + 1] # None THEN result' = <<pos, att[pos + 1]>> /\ phase' = "found" /\ pos' = pos
     ELSE /\ result' = result
          /\ IF anchored \/ pos + 1 > hlen THEN phase' = "exhausted" /\ pos' = pos
             ELSE phase' = "seek" /\ pos' = pos + 1
  /\ UNCHANGED <<hlen, att, adm, anchored, start>>

SNext == Seek \/ Try

\* what C04 demands of the predicate, for the positions this search can reach
Sound ==
  IF anchored THEN \A p \in (start + 1)..hlen : att[p + 1] = None
  ELSE \A p \in start..hlen : att[p + 1] # None => adm[p + 1]

Leftmost ==
  /\ phase = "found" => result[1] = SFirstFrom(att, hlen, start)
  /\ phase = "exhausted" => SFirstFrom(att, hlen, start) = None
TriedIncreasing == \A k \in 1..(Len(tried) - 1) : tried[k] < tried[k + 1]
\* no admitted position is passed over, and (unless anchored) only admitted ones are tried
NoneSkipped ==
  ~anchored => /\ \A k \in DOMAIN tried : adm[tried[k] + 1]
               /\ \A p \in start..(IF phase = "exhausted" THEN hlen ELSE pos) :
                     (adm[p + 1] /\ (p < pos \/ phase = "exhausted")) => \E k \in DOMAIN tried : tried[k] = p
Ends == <>(phase \in {"found", "exhausted"})
=============================================================================
