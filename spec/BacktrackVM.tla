----------------------------- MODULE BacktrackVM -----------------------------
(***************************************************************************)
(* The classical backtracking executor (src/classicalbacktrack.rs) as a    *)
(* deterministic state machine over dumped programs.                       *)
(*                                                                         *)
(* One Step is one instruction dispatch of try_at_pos, including the       *)
(* backtracking it triggers when the instruction fails (try_backtrack pops *)
(* undo records until a choice point resumes).  A look-around pushes a     *)
(* frame that hides the outer backtrack stack, exactly as run_lookaround   *)
(* swaps in a fresh stack; Goal inside a frame pops it.                    *)
(*                                                                         *)
(* State: [ip, pos, fwd, loops, groups, bts, frames, status, steps]        *)
(*   loops[i]  = [iters, entry]          groups[g] = [s, e] (None = -1)    *)
(*   bts       = the backtrack stack of the current frame, bottom first    *)
(*   frames    = suspended outer frames [bts, lip, pos, fwd, saved]        *)
(*   status    \in {"run", "matched", "failed"}                            *)
(* Every write to loops/groups is paired with an undo record, which is the *)
(* discipline the code intends.                                            *)
(***************************************************************************)
EXTENDS Bytecode

CONSTANT Dev   \* set of named deviations (see ESSem); {} is the intended machine

Push(s, e) == [s EXCEPT !.bts = Append(@, e)]
Pop(s) == [s EXCEPT !.bts = Front(@)]
Top(s) == s.bts[Len(s.bts)]

BTExhausted == [k |-> "Exhausted"]

InitState(P, p) ==
  [ip |-> 0, pos |-> p, fwd |-> TRUE,
   loops |-> [i \in 1..P.loops |-> [iters |-> 0, entry |-> 0]],
   groups |-> [g \in 1..P.groups |-> GNone],
   bts |-> <<BTExhausted>>, frames |-> <<>>, status |-> "run", steps |-> 0]

RECURSIVE Fail(_, _, _), LeaveFrame(_, _, _, _)

\* A look-around body finished (matched = TRUE at its Goal, FALSE when its stack is
\* exhausted): resume the outer frame.
LeaveFrame(P, B, s, matched) ==
  LET fr == s.frames[Len(s.frames)]
      insn == P.insns[fr.lip + 1]
      rng == (insn.sg + 1)..insn.eg
      s1 == [s EXCEPT !.frames = Front(@), !.bts = fr.bts, !.fwd = fr.fwd, !.pos = fr.pos]
  IN IF matched /\ ~insn.negate
     THEN \* keep the captures, but make them undoable
          [s1 EXCEPT !.ip = insn.cont,
                     !.bts = @ \o [j \in 1..(insn.eg - insn.sg) |->
                                     [k |-> "SetCaptureGroup", id |-> insn.sg + j - 1,
                                      data |-> fr.saved[j]]]]
     ELSE LET s2 == [s1 EXCEPT !.groups = [g \in DOMAIN s1.groups |->
                                              IF g \in rng THEN fr.saved[g - insn.sg] ELSE s1.groups[g]]]
          IN IF matched # insn.negate THEN [s2 EXCEPT !.ip = insn.cont] ELSE Fail(P, B, s2)

\* try_backtrack: pop until a choice point resumes; exhaustion ends the frame.
Fail(P, B, s) ==
  LET bt == Top(s) IN
  CASE bt.k = "Exhausted" ->
         IF s.frames = <<>> THEN [s EXCEPT !.status = "failed"] ELSE LeaveFrame(P, B, s, FALSE)
    [] bt.k = "SetPosition" -> [Pop(s) EXCEPT !.ip = bt.ip, !.pos = bt.pos]
    [] bt.k = "SetLoopData" -> Fail(P, B, [Pop(s) EXCEPT !.loops[bt.id + 1] = bt.data])
    [] bt.k = "SetCaptureGroup" -> Fail(P, B, [Pop(s) EXCEPT !.groups[bt.id + 1] = bt.data])
    [] bt.k = "EnterNonGreedyLoop" ->
         LET lf == P.insns[bt.ip + 1]
             pos == bt.data.entry
             \* the record is replaced by one restoring the pre-loop entry position (#131)
             s1 == [s EXCEPT !.bts[Len(s.bts)] =
                                [k |-> "SetLoopData", id |-> lf.id,
                                 data |-> [iters |-> bt.data.iters, entry |-> bt.orig_pos]],
                             !.loops[lf.id + 1] = bt.data]
             \* prepare_to_enter_loop
             s2 == [Push(s1, [k |-> "SetLoopData", id |-> lf.id, data |-> bt.data])
                      EXCEPT !.loops[lf.id + 1] = [iters |-> bt.data.iters + 1, entry |-> pos],
                             !.ip = bt.ip + 1, !.pos = pos]
         IN s2
    [] bt.k = "GreedyLoop1Char" ->
         IF bt.max = bt.min THEN Fail(P, B, Pop(s))
         ELSE LET r == NextCp(B, bt.max, ~s.fwd)
              IN [s EXCEPT !.bts[Len(s.bts)].max = r[2], !.pos = r[2], !.ip = bt.cont]
    [] bt.k = "NonGreedyLoop1Char" ->
         IF bt.max = bt.min THEN Fail(P, B, Pop(s))
         ELSE LET r == NextCp(B, bt.min, s.fwd)
              IN [s EXCEPT !.bts[Len(s.bts)].min = r[2], !.pos = r[2], !.ip = bt.cont]

\* run_loop: decide between entering and skipping the loop at lip.
RunLoop(P, B, s, lf, lip) ==
  LET ld == s.loops[lf.id + 1]
      it == ld.iters
      doTaken == lf.max = -1 \/ it < lf.max
      doNot == it >= lf.min
      Prep(st) == [Push(st, [k |-> "SetLoopData", id |-> lf.id, data |-> st.loops[lf.id + 1]])
                     EXCEPT !.loops[lf.id + 1] = [iters |-> it + 1, entry |-> s.pos], !.ip = lip + 1]
  IN IF ld.entry = s.pos /\ it > lf.min THEN Fail(P, B, s)   \* empty iteration past the minimum
     ELSE CASE ~doTaken /\ ~doNot -> Fail(P, B, s)
            [] ~doTaken /\ doNot -> [s EXCEPT !.ip = lf.exit]
            [] doTaken /\ ~doNot -> Prep(s)
            [] doTaken /\ doNot /\ ~lf.greedy ->
                 LET s1 == [s EXCEPT !.loops[lf.id + 1].entry = s.pos]
                 IN [Push(s1, [k |-> "EnterNonGreedyLoop", ip |-> lip, orig_pos |-> ld.entry,
                               data |-> s1.loops[lf.id + 1]]) EXCEPT !.ip = lf.exit]
            [] OTHER -> Prep(Push(s, [k |-> "SetPosition", ip |-> lf.exit, pos |-> s.pos]))

\* One instruction dispatch.
Step(P, B, s0) ==
  LET s == [s0 EXCEPT !.steps = @ + 1]
      insn == P.insns[s.ip + 1]
      pos == s.pos
      fwd == s.fwd
      Adv(ok) == IF ok THEN [s EXCEPT !.ip = @ + 1] ELSE Fail(P, B, s)
      SaveGroup(g) == Push(s, [k |-> "SetCaptureGroup", id |-> g, data |-> s.groups[g + 1]])
  IN
  CASE IsScm(insn) ->
         LET np == Scm(P, insn, B, pos, fwd) IN
         IF np = None THEN Fail(P, B, s) ELSE [s EXCEPT !.ip = @ + 1, !.pos = np]
    [] insn.op = "WordBoundary" ->
         LET a == PeekLeft(B, pos)  b == PeekRight(B, pos)
             wa == IF insn.uicase THEN IsWordCpUI(a) ELSE IsWordCpBasic(a)
             wb == IF insn.uicase THEN IsWordCpUI(b) ELSE IsWordCpBasic(b)
         IN Adv((wa # wb) # insn.invert)
    [] insn.op = "StartOfLine" ->
         LET a == PeekLeft(B, pos) IN Adv(a = None \/ (insn.multiline /\ a \in LineTerminators))
    [] insn.op = "EndOfLine" ->
         LET b == PeekRight(B, pos) IN Adv(b = None \/ (insn.multiline /\ b \in LineTerminators))
    [] insn.op = "Jump" -> [s EXCEPT !.ip = insn.target]
    [] insn.op = "BeginCG" ->
         [SaveGroup(insn.g) EXCEPT !.ip = @ + 1,
            !.groups[insn.g + 1] = IF fwd THEN [@ EXCEPT !.s = pos] ELSE [@ EXCEPT !.e = pos]]
    [] insn.op = "EndCG" ->
         [SaveGroup(insn.g) EXCEPT !.ip = @ + 1,
            !.groups[insn.g + 1] = IF fwd THEN [@ EXCEPT !.e = pos] ELSE [@ EXCEPT !.s = pos]]
    [] insn.op = "ResetCG" ->
         [SaveGroup(insn.g) EXCEPT !.ip = @ + 1, !.groups[insn.g + 1] = GNone]
    [] insn.op = "BackRef" ->
         LET cg == s.groups[insn.g + 1] IN
         IF cg.s = None \/ cg.e = None THEN Adv(TRUE)
         ELSE LET np == IF insn.icase
                        THEN BackrefICase(B, cg.s, cg.e, pos, fwd, P.unicode, Dev, IF fwd THEN cg.s ELSE cg.e)
                        ELSE MatchBytes(B, pos, fwd, SubSeq(B, cg.s + 1, cg.e))
              IN IF np = None THEN Fail(P, B, s) ELSE [s EXCEPT !.ip = @ + 1, !.pos = np]
    [] insn.op = "Look" ->
         [s EXCEPT !.frames = Append(@, [bts |-> s.bts, lip |-> s.ip, pos |-> pos, fwd |-> fwd,
                                         saved |-> [j \in 1..(insn.eg - insn.sg) |-> s.groups[insn.sg + j]]]),
                   !.bts = <<BTExhausted>>, !.ip = @ + 1, !.fwd = ~insn.behind]
    [] insn.op = "Alt" ->
         [Push(s, [k |-> "SetPosition", ip |-> insn.secondary, pos |-> pos]) EXCEPT !.ip = @ + 1]
    [] insn.op = "EnterLoop" ->
         LET s1 == [Push(s, [k |-> "SetLoopData", id |-> insn.id, data |-> s.loops[insn.id + 1]])
                      EXCEPT !.loops[insn.id + 1].iters = 0]
         IN RunLoop(P, B, s1, insn, s.ip)
    [] insn.op = "LoopAgain" -> RunLoop(P, B, s, P.insns[insn.begin + 1], insn.begin)
    [] insn.op = "Loop1CharBody" ->
         LET body == P.insns[s.ip + 2]
             rmin == ScmRepeat(P, body, B, pos, fwd, insn.min)
         IN IF rmin[1] < insn.min THEN Fail(P, B, s)
            ELSE LET minpos == rmin[2]
                     rmax == ScmRepeat(P, body, B, minpos, fwd,
                                       IF insn.max = -1 THEN -1 ELSE insn.max - insn.min)
                     maxpos == rmax[2]
                     cont == s.ip + 2
                     s1 == IF minpos = maxpos THEN s
                           ELSE Push(s, [k |-> IF insn.greedy THEN "GreedyLoop1Char" ELSE "NonGreedyLoop1Char",
                                         cont |-> cont, min |-> minpos, max |-> maxpos])
                 IN [s1 EXCEPT !.ip = cont, !.pos = IF insn.greedy THEN maxpos ELSE minpos]
    [] insn.op = "Goal" ->
         IF s.frames = <<>> THEN [s EXCEPT !.status = "matched", !.bts = <<BTExhausted>>]
         ELSE LeaveFrame(P, B, s, TRUE)
    [] insn.op = "JustFail" -> Fail(P, B, s)

RECURSIVE Iterate(_, _, _, _)
\* At most n Steps, stopping early at termination.  The recursion splits n in halves, so its
\* depth is logarithmic in n (a linear recursion would need a stack as deep as the run is long).
Iterate(P, B, s, n) ==
  IF s.status # "run" THEN s
  ELSE IF n = 1 THEN Step(P, B, s)
  ELSE Iterate(P, B, Iterate(P, B, s, n \div 2), n - (n \div 2))

\* Run to termination; a run that is still going after `fuel` steps is reported as "fuel".
RunAll(P, B, s, fuel) ==
  LET f == Iterate(P, B, s, fuel) IN IF f.status = "run" THEN [f EXCEPT !.status = "fuel"] ELSE f

\* The result of an anchored attempt at byte offset p in the form the runner reports:
\* <<>> or << <<start, end>>, <<cs, ce>> ... >> in byte offsets.
ResultOf(s, p) ==
  IF s.status # "matched" THEN <<>>
  ELSE << <<p, s.pos>> >> \o [g \in DOMAIN s.groups |->
          IF s.groups[g].s = None \/ s.groups[g].e = None THEN <<-1, -1>>
          ELSE <<s.groups[g].s, s.groups[g].e>>]

(***************************************************************************)
(* Invariants of the machine (C05, C06), evaluated on every state.         *)
(***************************************************************************)
PosInRange(B, s) == s.pos >= 0 /\ s.pos <= Len(B)
PosOnBoundary(P, B, s) ==
  s.status = "run" /\ DecodesChar(P.insns[s.ip + 1]) => OnBoundary(B, s.pos)
IpInRange(P, s) == s.ip >= 0 /\ s.ip < Len(P.insns)
GroupsWellFormed(B, s) ==
  s.status = "matched" =>
    \A g \in DOMAIN s.groups :
      LET cg == s.groups[g] IN
      (cg.s # None /\ cg.e # None) => (0 <= cg.s /\ cg.s <= cg.e /\ cg.e <= Len(B)
                                         /\ OnBoundary(B, cg.s) /\ OnBoundary(B, cg.e))
StackDepth(s) == Len(s.bts) + FoldLeft(LAMBDA acc, fr : acc + Len(fr.bts), 0, s.frames)
=============================================================================
