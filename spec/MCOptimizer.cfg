SPECIFICATION Spec
INVARIANT Preserved
INVARIANT WellFormedOK
INVARIANT Conforms
PROPERTY Terminates
CHECK_DEADLOCK FALSE
