----------------------------- MODULE MCOptimizer -----------------------------
(***************************************************************************)
(* Model checking Optimizer.tla from the trees the real parser produced    *)
(* (records of `runner sem --progs`, OBS): every state of every run of the *)
(* specification's optimizer keeps the meaning of the parsed tree on the   *)
(* record's haystacks, is well formed, and the run ends.                   *)
(***************************************************************************)
EXTENDS Optimizer, TLC, Json, IOUtils

Obs == ndJsonDeserialize(IOEnv.OBS)
MAXHAYS == atoi(IOEnv.MAXHAYS)
Min2(a, b) == IF a < b THEN a ELSE b
Usable(r) == "ir" \in DOMAIN r /\ Len(r.ir) > 0

VARIABLE src
vars == <<tree, pc, changed, src>>

Init == \E k \in DOMAIN Obs : Usable(Obs[k]) /\ src = k /\ OptInit(Obs[k].ir[1].ir)
Next == OptNext /\ UNCHANGED src
Spec == Init /\ [][Next]_vars /\ WF_vars(Next)

Preserved ==
  LET r == Obs[src]
      uni == r.fl.u \/ r.fl.v
  IN \A hi \in 1..Min2(MAXHAYS, Len(r.hays)) :
        IRAttempts(tree, r.ng, r.hays[hi], uni) = IRAttempts(r.ir[1].ir, r.ng, r.hays[hi], uni)
WellFormedOK == IRDefects(tree, Obs[src].ng) = {}
\* the machine's last state is the tree the real optimizer ended with
Conforms == pc = "done" => tree = Obs[src].ir[Len(Obs[src].ir)].ir
Terminates == <>(pc = "done")
TrueConst == TRUE
=============================================================================
