------------------------------ MODULE ClassSet ------------------------------
(***************************************************************************)
(* The denotation of class-set expressions (the v flag), ECMA-262 22.2.2.9 *)
(* CompileToCharSet, over the model universe.                              *)
(*                                                                         *)
(* An expression is a record with a field k:                               *)
(*   c c | r lo hi | e e (d D w W s S) | p name neg (a Unicode property)   *)
(*   q strs (\q{..}: a sequence of strings) | u xs (union) | i xs          *)
(*   (intersection) | s xs (subtraction, left to right) | n neg x (nested  *)
(*   class)                                                                *)
(* Its value is [cs |-> set of code points, ss |-> set of strings], a      *)
(* string of one code point counting as that code point.                   *)
(*                                                                         *)
(* Under v + i every set is computed on simple-case-folded code points     *)
(* (MaybeSimpleCaseFolding) and a complement is taken within the code      *)
(* points that are their own folding (AllCharacters), which is where v     *)
(* differs from u: with u only the outermost negation exists and it is     *)
(* "no member canonicalizes like the input".                               *)
(*                                                                         *)
(* Sets are represented on the model universe only: the generators draw    *)
(* haystack characters from it, and it is closed under both case relations.*)
(***************************************************************************)
EXTENDS Alphabet

\* Caseless code points of the universe besides the cased ones.
Universe ==
  CasedCps \cup {48, 49, 57, 95, 45, 32, 10, 9, 8232, 8364, 128512, 38, 33, 0, 8}

\* Table of the two general categories the model knows, restricted to the universe
\* (UnicodeData.txt): Lu and Ll.  U+01C5 is Lt.
LuSet == (65..90) \cup {201, 924, 931, 8490, 7838, 452, 1046, 66560, 304}
LlSet == (97..122) \cup {181, 956, 383, 223, 233, 963, 962, 454, 1078, 66600, 305}
PropSet(name) == CASE name = "Lu" -> LuSet [] name = "Ll" -> LlSet [] name = "Any" -> Universe

FoldC(c, icase) == IF icase THEN Scf(c) ELSE c
FoldSet(S, icase) == {FoldC(c, icase) : c \in S}
AllChars(icase) == IF icase THEN {c \in Universe : Scf(c) = c} ELSE Universe

EscapeSet(e, icase) ==
  LET pos == CASE e \in {"d", "D"} -> {c \in Universe : IsDigitCp(c)}
               [] e \in {"w", "W"} -> {c \in Universe : IsWordCp(c, icase, TRUE)}
               [] e \in {"s", "S"} -> Universe \cap WhiteSpaceChars
      f == FoldSet(pos, icase)
  IN IF e \in {"D", "W", "S"} THEN AllChars(icase) \ f ELSE f

SeqSet(s) == {s[k] : k \in DOMAIN s}

RECURSIVE Denote(_, _)
Denote(x, icase) ==
  CASE x.k = "c" -> [cs |-> {FoldC(x.c, icase)}, ss |-> {}]
    [] x.k = "r" -> [cs |-> FoldSet({c \in Universe : x.lo <= c /\ c <= x.hi}, icase), ss |-> {}]
    [] x.k = "e" -> [cs |-> EscapeSet(x.e, icase), ss |-> {}]
    [] x.k = "p" -> LET f == FoldSet(PropSet(x.name), icase)
                    IN [cs |-> IF x.neg THEN AllChars(icase) \ f ELSE f, ss |-> {}]
    [] x.k = "q" -> LET strs == {[j \in DOMAIN x.strs[m] |-> FoldC(x.strs[m][j], icase)] : m \in DOMAIN x.strs}
                    IN [cs |-> {s[1] : s \in {t \in strs : Len(t) = 1}}, ss |-> {t \in strs : Len(t) # 1}]
    [] x.k \in {"u", "i", "s"} ->
         \* the operands' values, computed once
         LET ds == [m \in DOMAIN x.xs |-> Denote(x.xs[m], icase)] IN
         (CASE x.k = "u" -> [cs |-> UNION {ds[m].cs : m \in DOMAIN ds}, ss |-> UNION {ds[m].ss : m \in DOMAIN ds}]
           [] x.k = "i" -> [cs |-> {c \in ds[1].cs : \A m \in DOMAIN ds : c \in ds[m].cs},
                            ss |-> {t \in ds[1].ss : \A m \in DOMAIN ds : t \in ds[m].ss}]
           [] x.k = "s" -> [cs |-> {c \in ds[1].cs : \A m \in 2..Len(ds) : c \notin ds[m].cs},
                            ss |-> {t \in ds[1].ss : \A m \in 2..Len(ds) : t \notin ds[m].ss}])
    [] x.k = "n" -> LET d == Denote(x.x, icase)
                    IN IF x.neg THEN [cs |-> AllChars(icase) \ d.cs, ss |-> {}] ELSE d

\* MayContainStrings (static semantics): a negated class whose contents may contain strings is
\* a syntax error, so the generators only build well-formed expressions.
RECURSIVE MayContainStrings(_)
MayContainStrings(x) ==
  CASE x.k = "q" -> \E m \in DOMAIN x.strs : Len(x.strs[m]) # 1
    [] x.k = "u" -> \E m \in DOMAIN x.xs : MayContainStrings(x.xs[m])
    [] x.k = "i" -> \A m \in DOMAIN x.xs : MayContainStrings(x.xs[m])
    [] x.k = "s" -> MayContainStrings(x.xs[1])
    [] x.k = "n" -> ~x.neg /\ MayContainStrings(x.x)
    [] OTHER -> FALSE

RECURSIVE WellFormedSet(_)
WellFormedSet(x) ==
  CASE x.k \in {"u", "i", "s"} -> \A m \in DOMAIN x.xs : WellFormedSet(x.xs[m])
    [] x.k = "n" -> WellFormedSet(x.x) /\ (x.neg => ~MayContainStrings(x.x))
    [] OTHER -> TRUE

\* The value of a whole class [..] / [^..] under v.
ClassValue(neg, x, icase) ==
  LET d == Denote(x, icase) IN IF neg THEN [cs |-> AllChars(icase) \ d.cs, ss |-> {}] ELSE d

\* Does the single-character part accept ch?  (CharacterSetMatcher with the canonical
\* comparison; the sets are already folded under i.)
SetHas(cs, ch, icase) == FoldC(ch, icase) \in cs

RECURSIVE SortByLenDesc(_)
\* the strings of a set, longest first (ties in any fixed order: equal-length alternatives that
\* both match end at the same position)
SortByLenDesc(S) ==
  IF S = {} THEN <<>>
  ELSE LET m == CHOOSE t \in S : \A u \in S : Len(u) <= Len(t)
       IN <<m>> \o SortByLenDesc(S \ {m})
=============================================================================
