------------------------------ MODULE OptPasses ------------------------------
(***************************************************************************)
(* The passes of the optimizer (src/optimizer.rs) over IR trees; the state  *)
(* machine that runs them is Optimizer.tla.                                *)
(*                                                                         *)
(* State: the tree, the pass about to run, and whether a pass of the       *)
(* current round changed the tree.  One action per pass: a pass applies    *)
(* its local rule to every node in post-order (children first; inside a    *)
(* look-behind the walk knows it) and repeats until a traversal changes    *)
(* nothing.  `optimize` runs simplify_brackets once and then rounds of     *)
(*   decat, unroll_loops, promote_1char_loops, form_literal_bytes,         *)
(*   remove_empties, propagate_early_fails                                 *)
(* until a round changes nothing.                                          *)
(*                                                                         *)
(* Properties (checked by TLC from every tree the real parser produced     *)
(* for the enumerated families, MCOptimizer):                              *)
(*   Preserved    every state's tree means what the initial tree means     *)
(*                (IRSem, every anchored attempt on every model haystack)  *)
(*   WellFormedOK every state's tree is well formed (IRSem!IRDefects)      *)
(*   Terminates   the optimizer reaches "done"                             *)
(* Binding: the hook verif::ir_trace_json records the real optimizer's     *)
(* tree after every pass that changed it; Stages(tree) is the same list    *)
(* computed by this specification (JudgeIR compares them).                 *)
(***************************************************************************)
EXTENDS IRSem

MaxCharSetLength == 4
LoopUnrollThreshold == 5
UnrollBodyBudget == 256
CodePointMax == 1114111

EmptyNode == [t |-> "empty"]
AlwaysFailsNode == [t |-> "charset", cs |-> <<>>]

IvCount(ivs) == FoldLeft(LAMBDA acc, iv : acc + (iv[2] - iv[1] + 1), 0, ivs)

RECURSIVE InvertedFrom(_, _, _)
\* complement of a sorted disjoint interval list, from index k with `start` the
\* first code point not yet covered
InvertedFrom(ivs, k, start) ==
  IF k > Len(ivs) THEN (IF start <= CodePointMax THEN << <<start, CodePointMax>> >> ELSE <<>>)
  ELSE (IF start < ivs[k][1] THEN << <<start, ivs[k][1] - 1>> >> ELSE <<>>)
       \o InvertedFrom(ivs, k + 1, ivs[k][2] + 1)
Inverted(ivs) == InvertedFrom(ivs, 1, 0)

BracketIsEmpty(n) == IF n.neg THEN n.ivs = << <<0, CodePointMax>> >> ELSE n.ivs = <<>>

MatchesExactlyOneChar(n) ==
  CASE n.t = "char" -> TRUE
    [] n.t = "charset" -> n.cs # <<>>
    [] n.t = "bracket" -> ~BracketIsEmpty(n)
    [] n.t \in {"any", "anynl"} -> TRUE
    [] OTHER -> FALSE

MatchAlwaysFails(n) ==
  CASE n.t = "byteset" -> n.bs = <<>>
    [] n.t = "charset" -> n.cs = <<>>
    [] n.t = "bracket" -> BracketIsEmpty(n)
    [] OTHER -> FALSE

RECURSIVE NodeCount(_), HasKind(_, _), ContainsCaptureGroups(_)
NodeCount(n) ==
  1 + (CASE n.t \in {"cat", "alt"} -> FoldLeft(LAMBDA acc, x : acc + NodeCount(x), 0, n.xs)
         [] n.t \in {"grp", "look", "loop", "loop1"} -> NodeCount(n.b)
         [] OTHER -> 0)
HasKind(n, kinds) ==
  \/ n.t \in kinds
  \/ (CASE n.t \in {"cat", "alt"} -> \E k \in DOMAIN n.xs : HasKind(n.xs[k], kinds)
        [] n.t \in {"grp", "look", "loop", "loop1"} -> HasKind(n.b, kinds)
        [] OTHER -> FALSE)
\* (as the code: it does not look inside one-character loops, which cannot hold groups)
ContainsCaptureGroups(n) ==
  CASE n.t = "grp" -> TRUE
    [] n.t \in {"cat", "alt"} -> \E k \in DOMAIN n.xs : ContainsCaptureGroups(n.xs[k])
    [] n.t \in {"loop", "look"} -> ContainsCaptureGroups(n.b)
    [] OTHER -> FALSE

IsScalar(c) == c <= CodePointMax /\ ~(c >= 55296 /\ c <= 57343)

(***************************************************************************)
(* The local rules.  Each maps a node whose children have already been     *)
(* processed to its replacement (the node itself: keep).                   *)
(***************************************************************************)
RECURSIVE IvCps(_, _)
IvCps(ivs, k) == IF k > Len(ivs) THEN <<>>
                 ELSE [j \in 1..(ivs[k][2] - ivs[k][1] + 1) |-> ivs[k][1] + j - 1] \o IvCps(ivs, k + 1)

SimplifyBrackets(n) ==
  IF n.t # "bracket" THEN n
  ELSE IF ~n.neg /\ IvCount(n.ivs) <= MaxCharSetLength THEN [t |-> "charset", cs |-> IvCps(n.ivs, 1)]
  ELSE IF Len(n.ivs) > Len(Inverted(n.ivs)) THEN [n EXCEPT !.ivs = Inverted(n.ivs), !.neg = ~n.neg]
  ELSE n

Decat(n) ==
  IF n.t # "cat" THEN n
  ELSE IF Len(n.xs) = 0 THEN EmptyNode
  ELSE IF Len(n.xs) = 1 THEN n.xs[1]
  ELSE IF \E k \in DOMAIN n.xs : n.xs[k].t = "cat"
       THEN [n EXCEPT !.xs = IFlatMap(LAMBDA x : IF x.t = "cat" THEN x.xs ELSE <<x>>, n.xs)]
  ELSE n

\* is_unrollable with its node budget, and try_duplicate (which refuses string sets)
Unrollable(b) == ~HasKind(b, {"loop", "loop1", "strset"}) /\ NodeCount(b) <= UnrollBodyBudget

UnrollLoops(n) ==
  IF n.t # "loop" THEN n
  ELSE IF n.glo < n.ghi \/ n.min = 0 \/ n.min > LoopUnrollThreshold \/ ~Unrollable(n.b) THEN n
  ELSE LET rest == [n EXCEPT !.min = 0, !.max = IF n.max = -1 THEN -1 ELSE n.max - n.min]
       IN [t |-> "cat", xs |-> [k \in 1..n.min |-> n.b] \o (IF rest.max # 0 THEN <<rest>> ELSE <<>>)]

Promote1CharLoops(n) ==
  IF n.t = "loop" /\ MatchesExactlyOneChar(n.b)
  THEN [t |-> "loop1", min |-> n.min, max |-> n.max, greedy |-> n.greedy, b |-> n.b]
  ELSE n

RECURSIVE MergeBytes(_, _, _)
\* the pairwise merge of adjacent non-empty byte literals, left to right: the merged
\* literal moves into the right one and the left one is left empty
MergeBytes(xs, idx, lb) ==
  IF idx > Len(xs) THEN xs
  ELSE LET p == xs[idx - 1]  c == xs[idx] IN
       IF p.t = "bytes" /\ c.t = "bytes" /\ p.bs # <<>> /\ c.bs # <<>>
       THEN MergeBytes([xs EXCEPT ![idx - 1] = [p EXCEPT !.bs = <<>>],
                                  ![idx] = [c EXCEPT !.bs = IF lb THEN c.bs \o p.bs ELSE p.bs \o c.bs]],
                       idx + 1, lb)
       ELSE MergeBytes(xs, idx + 1, lb)

FormLiteralBytes(n, lb) ==
  CASE n.t = "char" -> IF IsScalar(n.c) THEN [t |-> "bytes", bs |-> Utf8(n.c)] ELSE n
    [] n.t = "charset" -> IF \A k \in DOMAIN n.cs : n.cs[k] <= 127 THEN [t |-> "byteset", bs |-> n.cs] ELSE n
    [] n.t = "cat" -> [n EXCEPT !.xs = MergeBytes(n.xs, 2, lb)]
    [] OTHER -> n

RemoveEmpties(n) ==
  CASE n.t = "bytes" -> IF n.bs = <<>> THEN EmptyNode ELSE n
    [] n.t = "cat" ->
         LET kept == SelectSeq(n.xs, LAMBDA x : x.t # "empty") IN
         IF Len(kept) = Len(n.xs) THEN n
         ELSE IF Len(kept) = 0 THEN EmptyNode
         ELSE IF Len(kept) = 1 THEN kept[1]
         ELSE [n EXCEPT !.xs = kept]
    [] n.t = "alt" -> IF n.xs[1].t = "empty" /\ n.xs[2].t = "empty" THEN EmptyNode ELSE n
    [] n.t = "loop" -> IF n.b.t = "empty" \/ (n.max = 0 /\ n.glo = n.ghi) THEN EmptyNode ELSE n
    [] n.t = "look" -> IF ~n.neg /\ n.b.t = "empty" THEN EmptyNode ELSE n
    [] OTHER -> n

PropagateEarlyFails(n) ==
  IF ContainsCaptureGroups(n) THEN n
  ELSE CASE n.t = "cat" -> IF \E k \in DOMAIN n.xs : MatchAlwaysFails(n.xs[k]) THEN AlwaysFailsNode ELSE n
         [] n.t = "alt" ->
              LET lf == MatchAlwaysFails(n.xs[1])  rf == MatchAlwaysFails(n.xs[2]) IN
              IF lf /\ rf THEN AlwaysFailsNode ELSE IF lf THEN n.xs[2] ELSE IF rf THEN n.xs[1] ELSE n
         [] n.t = "loop" -> IF n.glo >= n.ghi /\ n.min > 0 /\ MatchAlwaysFails(n.b) THEN AlwaysFailsNode ELSE n
         [] OTHER -> n

Rule(p, n, lb) ==
  CASE p = "simplify_brackets" -> SimplifyBrackets(n)
    [] p = "decat" -> Decat(n)
    [] p = "unroll_loops" -> UnrollLoops(n)
    [] p = "promote_1char_loops" -> Promote1CharLoops(n)
    [] p = "form_literal_bytes" -> FormLiteralBytes(n, lb)
    [] p = "remove_empties" -> RemoveEmpties(n)
    [] p = "propagate_early_fails" -> PropagateEarlyFails(n)

RECURSIVE Post(_, _, _), Fix(_, _)
\* one post-order traversal
Post(p, n, lb) ==
  LET n1 == CASE n.t \in {"cat", "alt"} -> [n EXCEPT !.xs = [k \in DOMAIN n.xs |-> Post(p, n.xs[k], lb)]]
              [] n.t \in {"grp", "loop", "loop1"} -> [n EXCEPT !.b = Post(p, n.b, lb)]
              [] n.t = "look" -> [n EXCEPT !.b = Post(p, n.b, n.behind)]
              [] OTHER -> n
  IN Rule(p, n1, lb)
\* a pass: traversals until one changes nothing
Fix(p, n) == LET m == Post(p, n, FALSE) IN IF m = n THEN n ELSE Fix(p, m)

(***************************************************************************)
(* Named deviation of the code from the evident intent.  `optimize` means  *)
(* to repeat the round while a pass changed something, but run_pass        *)
(* returns the `changed` flag as run_to_fixpoint leaves it, and that loop  *)
(* only ends once a traversal changed nothing: the flag is always false    *)
(* and the real optimizer runs exactly one round (so a body unrolled in    *)
(* round one keeps its nested concatenation).  The specification follows   *)
(* the code (RepeatRounds = FALSE); MCOptimizer also checks the intended   *)
(* behaviour (RepeatRounds <- TRUE): the properties hold either way.       *)
(***************************************************************************)
RepeatRounds == FALSE

RoundPasses == <<"decat", "unroll_loops", "promote_1char_loops", "form_literal_bytes",
                 "remove_empties", "propagate_early_fails">>

(***************************************************************************)
(* The same run as a function: the tree after every pass that changed it   *)
(* (what the hook records).                                                *)
(***************************************************************************)
RECURSIVE RoundFrom(_, _, _, _)
\* returns [stages, tree]; fuel bounds the number of rounds
RoundFrom(t, k, ch, fuel) ==
  IF k > Len(RoundPasses)
  THEN (IF ch /\ fuel > 0 THEN RoundFrom(t, 1, FALSE, fuel - 1) ELSE <<>>)
  ELSE LET t2 == Fix(RoundPasses[k], t) IN
       (IF t2 # t THEN <<[pass |-> RoundPasses[k], ir |-> t2]>> ELSE <<>>)
       \o RoundFrom(t2, k + 1, ch \/ (RepeatRounds /\ t2 # t), fuel)

Stages(t0) ==
  LET t1 == Fix("simplify_brackets", t0) IN
  <<[pass |-> "parse", ir |-> t0]>>
  \o (IF t1 # t0 THEN <<[pass |-> "simplify_brackets", ir |-> t1]>> ELSE <<>>)
  \o RoundFrom(t1, 1, FALSE, 50)
=============================================================================
