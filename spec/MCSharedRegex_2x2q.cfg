CONSTANT Threads <- T2
CONSTANT Queue <- Queue22
CONSTANT Steps <- Steps22
CONSTANT SharedScratch = FALSE
SPECIFICATION Spec
INVARIANT ResultsSequential
INVARIANT EmitSchedule
PROPERTY ProgImmutable
PROPERTY Terminates
CHECK_DEADLOCK FALSE
