------------------------------ MODULE ESGrammar ------------------------------
(***************************************************************************)
(* A recogniser for ECMAScript `Pattern` (ECMA-262 22.2.1 with the early   *)
(* errors of 22.2.1.1, Annex B.1.2 without u/v, the class-set grammar with *)
(* v, modifiers and duplicate named groups), on code point sequences.      *)
(*                                                                         *)
(*   Verdict(s, u, v) \in {"ok", "err", "unk"}                             *)
(*                                                                         *)
(* The grammar is deterministic once the number of capturing groups and    *)
(* the set of group names are known (a pre-scan, as the standard's static  *)
(* semantics do), so the recogniser is a family of functions from a        *)
(* position to the position after the construct.  A result is a record     *)
(* with a field e: e > 0 is the next unread position (1-based), e = 0 is   *)
(* a syntax error, e = -1 is "not judged" (a corner this transcription     *)
(* deliberately does not decide, see Unknown below).                       *)
(*                                                                         *)
(* Term-level results also carry nm, the multiset-free set of group names  *)
(* introduced so far in the current Alternative, so that the early error   *)
(* "two groups with the same name that might both participate" is decided  *)
(* structurally: names may repeat across the alternatives of a Disjunction *)
(* and nowhere else.                                                       *)
(***************************************************************************)
EXTENDS Naturals, Integers, Sequences, FiniteSets

At(s, i) == IF i >= 1 /\ i <= Len(s) THEN s[i] ELSE -1
IsDigit(c) == c >= 48 /\ c <= 57
IsOct(c) == c >= 48 /\ c <= 55
IsHex(c) == IsDigit(c) \/ (c >= 97 /\ c <= 102) \/ (c >= 65 /\ c <= 70)
IsAlpha(c) == (c >= 97 /\ c <= 122) \/ (c >= 65 /\ c <= 90)
HexVal(c) == IF IsDigit(c) THEN c - 48 ELSE IF c >= 97 THEN c - 87 ELSE c - 55
\* ^ $ \ . * + ? ( ) [ ] { } |
SyntaxChars == {94, 36, 92, 46, 42, 43, 63, 40, 41, 91, 93, 123, 125, 124}
IdStart(c) == IsAlpha(c) \/ c = 36 \/ c = 95
IdPart(c) == IdStart(c) \/ IsDigit(c)

Err == [e |-> 0, nm |-> {}, v |-> -1, str |-> FALSE]
Unk == [e |-> -1, nm |-> {}, v |-> -1, str |-> FALSE]
Bad(r) == r.e <= 0

RECURSIVE Digits(_, _), NumVal(_, _, _, _)
Digits(s, i) == IF IsDigit(At(s, i)) THEN Digits(s, i + 1) ELSE i
\* value of the digits s[i..j), saturating
NumVal(s, i, j, acc) ==
  IF i >= j THEN acc ELSE NumVal(s, i + 1, j, IF acc > 100000 THEN 1000000 ELSE acc * 10 + (s[i] - 48))

(***************************************************************************)
(* Quantifiers.                                                            *)
(***************************************************************************)
\* A braced quantifier at '{' (position i): [e |-> end or 0, lo, hi (-1 = unbounded)]
Braced(s, i) ==
  LET d1 == Digits(s, i + 1) IN
  IF d1 = i + 1 THEN [e |-> 0, lo |-> 0, hi |-> 0]
  ELSE LET lo == NumVal(s, i + 1, d1, 0) IN
       IF At(s, d1) = 125 THEN [e |-> d1 + 1, lo |-> lo, hi |-> lo]
       ELSE IF At(s, d1) = 44 THEN
              LET d2 == Digits(s, d1 + 1) IN
              IF At(s, d2) = 125
              THEN [e |-> d2 + 1, lo |-> lo, hi |-> IF d2 = d1 + 1 THEN -1 ELSE NumVal(s, d1 + 1, d2, 0)]
              ELSE [e |-> 0, lo |-> 0, hi |-> 0]
            ELSE [e |-> 0, lo |-> 0, hi |-> 0]

\* After an atom ending at e: an optional quantifier.  Returns the new end, or 0.
\* In u/v mode a '{' that does not start a quantifier is an error at the next Term anyway.
Quant(s, e, allowed) ==
  LET c == At(s, e)
      q == IF c \in {42, 43, 63} THEN e + 1
           ELSE IF c = 123 THEN LET b == Braced(s, e) IN
                  IF b.e = 0 THEN e
                  ELSE IF b.hi # -1 /\ b.lo > b.hi THEN 0 ELSE b.e
           ELSE e
  IN IF q = 0 THEN 0
     ELSE IF q = e THEN e
     ELSE IF ~allowed THEN 0
     ELSE IF At(s, q) = 63 THEN q + 1 ELSE q

(***************************************************************************)
(* Group names and the pre-scan.                                           *)
(***************************************************************************)
RECURSIVE NameEnd(_, _)
\* i at a character of the name; index of '>', 0 if malformed, -1 if not judged
\* (non-ASCII identifier characters and \u escapes inside names are not transcribed).
NameEnd(s, i) ==
  LET c == At(s, i) IN
  IF c = 62 THEN i ELSE IF IdPart(c) THEN NameEnd(s, i + 1)
  ELSE IF c >= 128 \/ c = 92 THEN -1 ELSE 0
\* i = first character after '<'
NameClose(s, i) ==
  LET c == At(s, i) IN
  IF IdStart(c) THEN NameEnd(s, i + 1) ELSE IF c >= 128 \/ c = 92 THEN -1 ELSE 0

RECURSIVE SkipClass(_, _), SkipClassV(_, _, _), Scan(_, _, _, _, _)
SkipClass(s, i) ==
  LET c == At(s, i) IN
  IF c = -1 THEN i ELSE IF c = 92 THEN SkipClass(s, i + 2) ELSE IF c = 93 THEN i + 1 ELSE SkipClass(s, i + 1)
SkipClassV(s, i, depth) ==
  LET c == At(s, i) IN
  IF c = -1 THEN i ELSE IF c = 92 THEN SkipClassV(s, i + 2, depth)
  ELSE IF c = 91 THEN SkipClassV(s, i + 1, depth + 1)
  ELSE IF c = 93 THEN (IF depth = 1 THEN i + 1 ELSE SkipClassV(s, i + 1, depth - 1))
  ELSE SkipClassV(s, i + 1, depth)
\* number of capturing groups and the set of group names of the whole pattern
Scan(s, i, ng, names, v) ==
  LET c == At(s, i) IN
  IF c = -1 THEN [ng |-> ng, names |-> names]
  ELSE IF c = 92 THEN Scan(s, i + 2, ng, names, v)
  ELSE IF c = 91 THEN Scan(s, IF v THEN SkipClassV(s, i + 1, 1) ELSE SkipClass(s, i + 1), ng, names, v)
  ELSE IF c = 40 THEN
         IF At(s, i + 1) # 63 THEN Scan(s, i + 1, ng + 1, names, v)
         ELSE IF At(s, i + 2) = 60 /\ NameClose(s, i + 3) > 0
              THEN Scan(s, i + 1, ng + 1, names \cup {SubSeq(s, i + 3, NameClose(s, i + 3) - 1)}, v)
              ELSE Scan(s, i + 1, ng, names, v)
  ELSE Scan(s, i + 1, ng, names, v)

(***************************************************************************)
(* Unicode property escapes.  Only names this transcription is certain     *)
(* about are judged; every other name is "not judged".                     *)
(***************************************************************************)
\* Property expressions as they appear between the braces, by class.
PropNonString ==
  { "L", "Lu", "Ll", "Letter", "Nd", "N", "P", "Z", "Cc", "M", "gc=Lu", "General_Category=Lu",
    "General_Category=Uppercase_Letter", "Uppercase_Letter", "Script=Greek", "sc=Grek", "scx=Latn",
    "Script_Extensions=Latin", "sc=Latin", "ASCII", "Alphabetic", "Alpha", "Any", "Assigned",
    "ID_Start", "IDS", "Emoji", "White_Space", "space", "Uppercase", "Upper", "Lowercase",
    "ASCII_Hex_Digit", "AHex", "Cased", "Math", "Dash", "Emoji_Presentation", "EPres" }
PropString ==
  { "RGI_Emoji", "Basic_Emoji", "Emoji_Keycap_Sequence", "RGI_Modifier_Sequence", "RGI_Flag_Sequence",
    "RGI_Tag_Sequence", "RGI_ZWJ_Sequence" }
PropInvalid ==
  { "", "Foo", "lu", "L=", "=L", "Script", "sc", "Script=Foo", "gc=Greek", "Greek", "InGreek", "IsL",
    "gc=", "Script=", "ASCII=Y", "Any=Y", "RGI_Emoji=Y", "sc=Lu", "General_Category", "Lu=Lu", "any",
    "ascii", "Other_Alphabetic", "Block=Greek", "Line_Break=AL", "Name=A", "scx", "Script_Extensions",
    "L=Lu", "gc=gc=Lu", "rgi_emoji", "Emoji=Emoji" }

\* ASCII code points -> TLA+ string, for the characters allowed in a property expression
Ch(c) ==
  CASE c = 61 -> "=" [] c = 95 -> "_"
    [] c = 48 -> "0" [] c = 49 -> "1" [] c = 50 -> "2" [] c = 51 -> "3" [] c = 52 -> "4"
    [] c = 53 -> "5" [] c = 54 -> "6" [] c = 55 -> "7" [] c = 56 -> "8" [] c = 57 -> "9"
    [] c = 65 -> "A" [] c = 66 -> "B" [] c = 67 -> "C" [] c = 68 -> "D" [] c = 69 -> "E" [] c = 70 -> "F"
    [] c = 71 -> "G" [] c = 72 -> "H" [] c = 73 -> "I" [] c = 74 -> "J" [] c = 75 -> "K" [] c = 76 -> "L"
    [] c = 77 -> "M" [] c = 78 -> "N" [] c = 79 -> "O" [] c = 80 -> "P" [] c = 81 -> "Q" [] c = 82 -> "R"
    [] c = 83 -> "S" [] c = 84 -> "T" [] c = 85 -> "U" [] c = 86 -> "V" [] c = 87 -> "W" [] c = 88 -> "X"
    [] c = 89 -> "Y" [] c = 90 -> "Z"
    [] c = 97 -> "a" [] c = 98 -> "b" [] c = 99 -> "c" [] c = 100 -> "d" [] c = 101 -> "e" [] c = 102 -> "f"
    [] c = 103 -> "g" [] c = 104 -> "h" [] c = 105 -> "i" [] c = 106 -> "j" [] c = 107 -> "k" [] c = 108 -> "l"
    [] c = 109 -> "m" [] c = 110 -> "n" [] c = 111 -> "o" [] c = 112 -> "p" [] c = 113 -> "q" [] c = 114 -> "r"
    [] c = 115 -> "s" [] c = 116 -> "t" [] c = 117 -> "u" [] c = 118 -> "v" [] c = 119 -> "w" [] c = 120 -> "x"
    [] c = 121 -> "y" [] c = 122 -> "z"
    [] OTHER -> "?"
IsPropChar(c) == IsAlpha(c) \/ IsDigit(c) \/ c = 95 \/ c = 61

RECURSIVE PropText(_, _, _)
PropText(s, i, j) == IF i >= j THEN "" ELSE Ch(s[i]) \o PropText(s, i + 1, j)
RECURSIVE PropEnd(_, _)
\* i at a character after '{': index of '}', or 0
PropEnd(s, i) == LET c == At(s, i) IN IF c = 125 THEN i ELSE IF IsPropChar(c) THEN PropEnd(s, i + 1) ELSE 0

\* \p or \P at position i (the letter): [e, str] ; neg = \P ; setsMode = v flag
PropEscape(s, i, neg, setsMode) ==
  IF At(s, i + 1) # 123 THEN Err
  ELSE LET pe == PropEnd(s, i + 2) IN
       IF pe = 0 THEN Err
       ELSE LET txt == PropText(s, i + 2, pe) IN
            IF txt \in PropInvalid THEN Err
            ELSE IF txt \in PropNonString THEN [Err EXCEPT !.e = pe + 1]
            ELSE IF txt \in PropString
                 THEN (IF ~setsMode \/ neg THEN Err ELSE [Err EXCEPT !.e = pe + 1, !.str = TRUE])
            ELSE Unk

(***************************************************************************)
(* Character escapes.  i = position of the character after the backslash.  *)
(* Result: e = end, v = code point.  env = [u, n, ng, names, v]            *)
(***************************************************************************)
HexN(s, i, n) == \A k \in 0..(n - 1) : IsHex(At(s, i + k))
RECURSIVE HexRun(_, _), HexValue(_, _, _, _)
HexRun(s, i) == IF IsHex(At(s, i)) THEN HexRun(s, i + 1) ELSE i
HexValue(s, i, j, acc) ==
  IF i >= j THEN acc ELSE HexValue(s, i + 1, j, IF acc > 1114111 THEN 2000000 ELSE acc * 16 + HexVal(s[i]))

Ch1(e, v) == [Err EXCEPT !.e = e, !.v = v]

CharEscape(s, i, env, inClass) ==
  LET d == At(s, i) IN
  CASE d = -1 -> Err
    [] d \in {102, 110, 114, 116, 118} ->
         Ch1(i + 1, CASE d = 102 -> 12 [] d = 110 -> 10 [] d = 114 -> 13 [] d = 116 -> 9 [] d = 118 -> 11)
    [] d = 99 ->   \* c
         IF IsAlpha(At(s, i + 1)) THEN Ch1(i + 2, At(s, i + 1) % 32)
         ELSE IF env.u THEN Err
         ELSE IF inClass /\ (IsDigit(At(s, i + 1)) \/ At(s, i + 1) = 95) THEN Ch1(i + 2, At(s, i + 1) % 32)
         ELSE Ch1(i, 92)          \* the backslash is a literal; 'c' is read again
    [] d = 48 /\ ~IsDigit(At(s, i + 1)) -> Ch1(i + 1, 0)
    [] IsDigit(d) ->   \* legacy octal / identity (backreferences are handled by the caller)
         IF env.u THEN Err
         ELSE IF d >= 56 THEN Ch1(i + 1, d)
         ELSE LET d2 == At(s, i + 1)  d3 == At(s, i + 2) IN
              IF ~IsOct(d2) THEN Ch1(i + 1, d - 48)
              ELSE IF d >= 52 THEN Ch1(i + 2, (d - 48) * 8 + (d2 - 48))
              ELSE IF IsOct(d3) THEN Ch1(i + 3, (d - 48) * 64 + (d2 - 48) * 8 + (d3 - 48))
              ELSE Ch1(i + 2, (d - 48) * 8 + (d2 - 48))
    [] d = 120 ->  \* x
         IF HexN(s, i + 1, 2) THEN Ch1(i + 3, HexVal(s[i + 1]) * 16 + HexVal(s[i + 2]))
         ELSE IF env.u THEN Err ELSE Ch1(i + 1, 120)
    [] d = 117 ->  \* u
         IF (env.u \/ "D14" \in env.dev) /\ At(s, i + 1) = 123 THEN
              LET h == HexRun(s, i + 2) IN
              IF h > i + 2 /\ At(s, h) = 125 /\ HexValue(s, i + 2, h, 0) <= 1114111
              THEN Ch1(h + 1, HexValue(s, i + 2, h, 0))
              ELSE IF env.u THEN Err ELSE Ch1(i + 1, 117)
         ELSE IF HexN(s, i + 1, 4) THEN
              LET hi == HexValue(s, i + 1, i + 5, 0) IN
              IF env.u /\ hi >= 55296 /\ hi <= 56319 /\ At(s, i + 5) = 92 /\ At(s, i + 6) = 117 /\ HexN(s, i + 7, 4)
                 /\ HexValue(s, i + 7, i + 11, 0) >= 56320 /\ HexValue(s, i + 7, i + 11, 0) <= 57343
              THEN Ch1(i + 11, 65536 + (hi - 55296) * 1024 + (HexValue(s, i + 7, i + 11, 0) - 56320))
              ELSE Ch1(i + 5, hi)
         ELSE IF env.u THEN Err ELSE Ch1(i + 1, 117)
    [] d \in SyntaxChars \/ d = 47 -> Ch1(i + 1, d)
    [] OTHER -> IF env.u THEN Err
                ELSE IF d = 107 /\ env.n THEN Err
                ELSE Ch1(i + 1, d)

(***************************************************************************)
(* Character classes without v.  i = position of '['.                      *)
(* A class atom: v = code point, or -1 for a class escape.                 *)
(***************************************************************************)
ClassAtom(s, j, env) ==
  LET c == At(s, j) IN
  IF c = -1 THEN Err
  ELSE IF c # 92 THEN Ch1(j + 1, c)
  ELSE LET d == At(s, j + 1) IN
       IF d = -1 THEN Err
       ELSE IF d = 98 THEN Ch1(j + 2, 8)
       ELSE IF d = 45 THEN Ch1(j + 2, 45)         \* [+U] ClassEscape '-'; identity escape otherwise
       ELSE IF d \in {100, 68, 115, 83, 119, 87} THEN Ch1(j + 2, -1)
       ELSE IF d \in {112, 80} /\ env.u THEN
              LET p == PropEscape(s, j + 1, d = 80, FALSE) IN IF Bad(p) THEN p ELSE Ch1(p.e, -1)
       ELSE IF IsDigit(d) /\ d # 48 /\ env.u THEN Err
       ELSE CharEscape(s, j + 1, env, TRUE)

RECURSIVE ClassBody(_, _, _)
ClassBody(s, j, env) ==
  LET c == At(s, j) IN
  IF c = -1 THEN Err
  ELSE IF c = 93 THEN Ch1(j + 1, 0)
  ELSE LET a == ClassAtom(s, j, env) IN
       IF Bad(a) THEN a
       ELSE IF At(s, a.e) = 45 /\ At(s, a.e + 1) # 93 /\ At(s, a.e + 1) # -1 THEN
              LET b == ClassAtom(s, a.e + 1, env) IN
              IF Bad(b) THEN b
              ELSE IF a.v = -1 \/ b.v = -1 THEN (IF env.u THEN Err ELSE ClassBody(s, b.e, env))
              ELSE IF a.v > b.v THEN Err
              ELSE ClassBody(s, b.e, env)
            ELSE ClassBody(s, a.e, env)
Class(s, i, env) == ClassBody(s, IF At(s, i + 1) = 94 THEN i + 2 ELSE i + 1, env)

(***************************************************************************)
(* Class sets (v).  Results carry str = MayContainStrings.                 *)
(***************************************************************************)
\* ( ) [ ] { } / - \ |
ClassSetSyntax == {40, 41, 91, 93, 123, 125, 47, 45, 92, 124}
\* & - ! # % , : ; < = > @ ` ~
ClassSetReservedPunct == {38, 45, 33, 35, 37, 44, 58, 59, 60, 61, 62, 64, 96, 126}
\* the characters of && !! ## $$ %% ** ++ ,, .. :: ;; << == >> ?? @@ ^^ `` ~~
DoublePunctChars == {38, 33, 35, 36, 37, 42, 43, 44, 46, 58, 59, 60, 61, 62, 63, 64, 94, 96, 126}

UEnv(env) == [env EXCEPT !.u = TRUE]

\* ClassSetCharacter at j: e, v
SetChar(s, j, env) ==
  LET c == At(s, j) IN
  IF c = -1 THEN Err
  ELSE IF c = 92 THEN
         LET d == At(s, j + 1) IN
         IF d = -1 THEN Err
         ELSE IF d = 98 THEN Ch1(j + 2, 8)
         ELSE IF d \in ClassSetReservedPunct THEN Ch1(j + 2, d)
         ELSE IF d \in {100, 68, 115, 83, 119, 87, 112, 80, 113} THEN Err   \* not a character
         ELSE IF IsDigit(d) /\ d # 48 THEN Err
         ELSE CharEscape(s, j + 1, UEnv(env), FALSE)
  ELSE IF c \in ClassSetSyntax THEN Err
  ELSE IF c \in DoublePunctChars /\ At(s, j + 1) = c THEN Err
  ELSE Ch1(j + 1, c)

RECURSIVE QStrings(_, _, _, _, _), SetOperand(_, _, _), SetContents(_, _, _), SetUnion(_, _, _, _),
          SetInter(_, _, _, _), SetSub(_, _, _, _)

\* \q{ ... } contents from position j (after the '{'); len = length of the current string;
\* str = some finished string had a length other than one.
QStrings(s, j, env, len, str) ==
  LET c == At(s, j) IN
  IF c = -1 THEN Err
  ELSE IF c = 125 THEN [Err EXCEPT !.e = j + 1, !.str = str \/ len # 1]
  ELSE IF c = 124 THEN QStrings(s, j + 1, env, 0, str \/ len # 1)
  ELSE LET ch == SetChar(s, j, env) IN
       IF Bad(ch) THEN ch ELSE QStrings(s, ch.e, env, len + 1, str)

\* A ClassSetOperand at j.  v = code point if it is a ClassSetCharacter, else -1.
SetOperand(s, j, env) ==
  LET c == At(s, j) IN
  IF c = 91 THEN
       LET neg == At(s, j + 1) = 94
           r == SetContents(s, IF neg THEN j + 2 ELSE j + 1, env)
       IN IF Bad(r) THEN r ELSE IF neg /\ r.str THEN Err ELSE [r EXCEPT !.v = -1, !.str = r.str /\ ~neg]
  ELSE IF c = 92 /\ At(s, j + 1) \in {100, 68, 115, 83, 119, 87} THEN [Err EXCEPT !.e = j + 2]
  ELSE IF c = 92 /\ At(s, j + 1) \in {112, 80} THEN
       LET p == PropEscape(s, j + 1, At(s, j + 1) = 80, TRUE) IN IF Bad(p) THEN p ELSE [p EXCEPT !.v = -1]
  ELSE IF c = 92 /\ At(s, j + 1) = 113 THEN
       (IF At(s, j + 2) # 123 THEN Err ELSE QStrings(s, j + 3, env, 0, FALSE))
  ELSE SetChar(s, j, env)

\* ClassContents[+V] from j up to and including the closing ']'.
SetContents(s, j, env) ==
  IF At(s, j) = 93 THEN [Err EXCEPT !.e = j + 1]
  ELSE LET a == SetOperand(s, j, env) IN
       IF Bad(a) THEN a
       ELSE LET c1 == At(s, a.e)  c2 == At(s, a.e + 1) IN
            IF c1 = 38 /\ c2 = 38 THEN SetInter(s, a.e + 2, env, a.str)
            ELSE IF c1 = 45 /\ c2 = 45 THEN SetSub(s, a.e + 2, env, a.str)
            ELSE SetUnion(s, j, env, FALSE)

\* ClassUnion from j: ranges and operands until ']'
SetUnion(s, j, env, str) ==
  IF At(s, j) = 93 THEN [Err EXCEPT !.e = j + 1, !.str = str]
  ELSE LET a == SetOperand(s, j, env) IN
       IF Bad(a) THEN a
       ELSE IF At(s, a.e) = 45 THEN
              \* a single '-' makes a range; "--" after a union is not an operator
              IF At(s, a.e + 1) = 45 \/ a.v = -1 THEN Err
              ELSE LET b == SetChar(s, a.e + 1, env) IN
                   IF Bad(b) THEN b ELSE IF a.v > b.v THEN Err ELSE SetUnion(s, b.e, env, str)
            ELSE SetUnion(s, a.e, env, str \/ a.str)

\* after "&&": operand, then ']' or "&&"
SetInter(s, j, env, str) ==
  IF At(s, j) = 38 THEN Err
  ELSE LET a == SetOperand(s, j, env) IN
       IF Bad(a) THEN a
       ELSE IF At(s, a.e) = 93 THEN [Err EXCEPT !.e = a.e + 1, !.str = str /\ a.str]
       ELSE IF At(s, a.e) = 38 /\ At(s, a.e + 1) = 38 THEN SetInter(s, a.e + 2, env, str /\ a.str)
       ELSE Err

\* after "--": operand, then ']' or "--"
SetSub(s, j, env, str) ==
  LET a == SetOperand(s, j, env) IN
  IF Bad(a) THEN a
  ELSE IF At(s, a.e) = 93 THEN [Err EXCEPT !.e = a.e + 1, !.str = str]
  ELSE IF At(s, a.e) = 45 /\ At(s, a.e + 1) = 45 THEN SetSub(s, a.e + 2, env, str)
  ELSE Err

\* CharacterClass[+V] at '[' (position i)
ClassV(s, i, env) ==
  LET neg == At(s, i + 1) = 94
      r == SetContents(s, IF neg THEN i + 2 ELSE i + 1, env)
  IN IF Bad(r) THEN r ELSE IF neg /\ r.str THEN Err ELSE r

(***************************************************************************)
(* Modifiers "(?ims-ims:".  i = position after "(?".  Position after ':'   *)
(* or 0.                                                                   *)
(***************************************************************************)
RECURSIVE ModFlags(_, _, _)
ModFlags(s, i, seen) ==
  LET c == At(s, i) IN
  IF c \in {105, 109, 115} THEN (IF c \in seen THEN [e |-> 0, seen |-> seen] ELSE ModFlags(s, i + 1, seen \cup {c}))
  ELSE [e |-> i, seen |-> seen]
Modifiers(s, i) ==
  LET a == ModFlags(s, i, {}) IN
  IF a.e = 0 THEN 0
  ELSE IF At(s, a.e) = 58 THEN (IF a.seen = {} THEN 0 ELSE a.e + 1)
  ELSE IF At(s, a.e) = 45 THEN
         LET b == ModFlags(s, a.e + 1, {}) IN
         IF b.e = 0 THEN 0
         ELSE IF At(s, b.e) # 58 THEN 0
         ELSE IF a.seen = {} /\ b.seen = {} THEN 0
         ELSE IF a.seen \cap b.seen # {} THEN 0
         ELSE b.e + 1
  ELSE 0

(***************************************************************************)
(* Terms, alternatives, disjunctions.  Results: [e, nm].                   *)
(***************************************************************************)
RECURSIVE Disj(_, _, _, _), AltSeq(_, _, _, _), Term(_, _, _)

R(e, nm) == [Err EXCEPT !.e = e, !.nm = nm]
\* apply a quantifier to a finished atom
Q(s, r, allowed) == IF Bad(r) THEN r ELSE R(Quant(s, r.e, allowed), r.nm)
\* a group body ended at d (a Disj result): expect ')' then a quantifier; own = the group's own name set
Close(s, d, allowed, own) ==
  IF Bad(d) THEN d
  ELSE IF At(s, d.e) # 41 THEN Err
  ELSE IF own \cap d.nm # {} THEN Err
  ELSE R(Quant(s, d.e + 1, allowed), own \cup d.nm)

Term(s, i, env) ==
  LET c == At(s, i) IN
  CASE c \in {94, 36} -> R(Quant(s, i + 1, FALSE), {})
    [] c = 92 ->
         LET d == At(s, i + 1) IN
         IF d = -1 THEN Err
         ELSE IF d \in {98, 66} THEN R(Quant(s, i + 2, FALSE), {})
         ELSE IF IsDigit(d) /\ d # 48 THEN
                LET de == Digits(s, i + 1)  val == NumVal(s, i + 1, de, 0) IN
                IF val <= env.ng THEN R(Quant(s, de, TRUE), {})
                ELSE IF env.u THEN Err
                ELSE Q(s, CharEscape(s, i + 1, env, FALSE), TRUE)
         ELSE IF d \in {100, 68, 115, 83, 119, 87} THEN R(Quant(s, i + 2, TRUE), {})
         ELSE IF d \in {112, 80} /\ env.u THEN Q(s, PropEscape(s, i + 1, d = 80, env.v), TRUE)
         ELSE IF d = 107 /\ env.n THEN
                IF At(s, i + 2) # 60 THEN Err
                ELSE LET ne == NameClose(s, i + 3) IN
                     IF ne = -1 THEN Unk
                     ELSE IF ne = 0 THEN Err
                     ELSE IF SubSeq(s, i + 3, ne - 1) \in env.names THEN R(Quant(s, ne + 1, TRUE), {}) ELSE Err
         ELSE Q(s, CharEscape(s, i + 1, env, FALSE), TRUE)
    [] c = 46 -> R(Quant(s, i + 1, TRUE), {})
    [] c = 91 -> Q(s, IF env.v THEN ClassV(s, i, env) ELSE Class(s, i, env), TRUE)
    [] c = 40 ->
         IF At(s, i + 1) # 63 THEN Close(s, Disj(s, i + 1, env, {}), TRUE, {})
         ELSE LET d == At(s, i + 2) IN
              IF d \in {61, 33} THEN Close(s, Disj(s, i + 3, env, {}), ~env.u, {})
              ELSE IF d = 58 THEN Close(s, Disj(s, i + 3, env, {}), TRUE, {})
              ELSE IF d = 60 THEN
                     IF At(s, i + 3) \in {61, 33} THEN Close(s, Disj(s, i + 4, env, {}), FALSE, {})
                     ELSE LET ne == NameClose(s, i + 3) IN
                          IF ne = -1 THEN Unk
                          ELSE IF ne = 0 THEN Err
                          ELSE Close(s, Disj(s, ne + 1, env, {}), TRUE, {SubSeq(s, i + 3, ne - 1)})
              ELSE LET me == Modifiers(s, i + 2) IN
                   IF me = 0 THEN Err ELSE Close(s, Disj(s, me, env, {}), TRUE, {})
    [] c \in {42, 43, 63, 41, 124, -1} -> Err
    [] c \in {93, 125} -> IF env.u THEN Err ELSE R(Quant(s, i + 1, TRUE), {})
    [] c = 123 -> IF env.u THEN Err ELSE IF Braced(s, i).e # 0 THEN Err ELSE R(Quant(s, i + 1, TRUE), {})
    [] OTHER -> R(Quant(s, i + 1, TRUE), {})

\* the Terms of one Alternative from i; nm = names introduced so far in this Alternative
AltSeq(s, i, env, nm) ==
  LET c == At(s, i) IN
  IF c \in {-1, 41, 124} THEN R(i, nm)
  ELSE LET t == Term(s, i, env) IN
       IF Bad(t) THEN t
       ELSE IF t.nm \cap nm # {} THEN Err
       ELSE AltSeq(s, t.e, env, nm \cup t.nm)

\* acc = names of the alternatives already parsed (they may repeat across alternatives)
Disj(s, i, env, acc) ==
  LET a == AltSeq(s, i, env, {}) IN
  IF Bad(a) THEN a
  ELSE IF At(s, a.e) = 124 THEN Disj(s, a.e + 1, env, acc \cup a.nm) ELSE R(a.e, acc \cup a.nm)

(***************************************************************************)
(* What this transcription does not decide.                                *)
(***************************************************************************)
\* Without u/v the standard reads the pattern as UTF-16 code units; a supplementary character or a
\* surrogate \u escape inside a class then forms ranges this code-point transcription cannot see.
RECURSIVE HasSurrogateEscape(_, _)
HasSurrogateEscape(s, i) ==
  IF i + 2 > Len(s) THEN FALSE
  ELSE (s[i] = 92 /\ s[i + 1] = 117 /\ At(s, i + 2) \in {100, 68} /\ At(s, i + 3) \in {56, 57, 97, 98, 99, 100, 101, 102, 65, 66, 67, 68, 69, 70})
       \/ HasSurrogateEscape(s, i + 1)
Unknown(s, u) ==
  ~u /\ (\E k \in DOMAIN s : s[k] = 91) /\ ((\E k \in DOMAIN s : s[k] > 65535) \/ HasSurrogateEscape(s, 1))

(***************************************************************************)
(* Named deviations (known_findings.json): with dev = {} this is the       *)
(* standard.                                                               *)
(*  D14  \u{h..h} is read as a code point escape without u/v as well       *)
(*       (the standard reads \u as the letter u there, so that /\u{2}/ is  *)
(*       "uu"); the pinned test suite requires the extension.              *)
(***************************************************************************)
VerdictDev(s, u, v, dev) ==
  IF Unknown(s, u \/ v) THEN "unk"
  ELSE LET uu == u \/ v
           sc == Scan(s, 1, 0, {}, v)
           env == [u |-> uu, v |-> v, n |-> uu \/ sc.names # {}, ng |-> sc.ng, names |-> sc.names, dev |-> dev]
           d == Disj(s, 1, env, {})
       IN IF d.e = -1 THEN "unk" ELSE IF d.e = Len(s) + 1 THEN "ok" ELSE "err"

Verdict(s, u, v) == VerdictDev(s, u, v, {})
\* the legacy verdict under the known deviation D14 (differs from Verdict only for \u{...})
VerdictLegacyD14(s) == VerdictDev(s, FALSE, FALSE, {"D14"})
=============================================================================
