------------------------------ MODULE JudgeSem ------------------------------
(***************************************************************************)
(* Judge recorded observations of the real engine against the reference    *)
(* semantics.  Input: OBS, an ndjson file written by `runner sem`, one      *)
(* record per pattern case:                                                *)
(*   ast, ng, fl, hays, compile, obs[h][s] (match sequence of find_from    *)
(*   from code point index s-1, in code point indices), diffs, bad, fails. *)
(* One TLC state per record; NCHAINS independent chains so that the        *)
(* workers share the load.  Every disagreement is printed as a JSON line   *)
(* (prefix "J ") and the run's invariant stays TRUE: the driver turns the  *)
(* lines into verdicts, so one pass reports every disagreement.            *)
(***************************************************************************)
EXTENDS ESSem, RegexAST, TLC, Json, IOUtils

Obs == ndJsonDeserialize(IOEnv.OBS)
NObs == Len(Obs)
NCHAINS == 16

Min2(a, b) == IF a < b THEN a ELSE b

\* Expected match sequences of a record for haystack index hi: a function of start+1.
Expected(r, hi) == AllMatchesFromEveryStart(r.past, r.ng, r.hays[hi], EnvOf(r.fl))

ExpectedDev(r, hi, dev) == AllMatchesFromEveryStart(r.past, r.ng, r.hays[hi], EnvDev(r.fl, dev))
Deviations == {"D8", "D9", "D10"}
\* The known deviations (ESSem) each of which alone explains the observation at (hi, s1).
ExplainedBy(r, hi, s1) == {d \in Deviations : ExpectedDev(r, hi, {d})[s1] = r.obs[hi][s1]}

\* Disagreements with the reference, per haystack and start index.  kind "first": the
\* first match differs (C01); kind "seq": the first match agrees but the sequence does not.
SemMismatchesOf(r, hi, exp) ==
  { [kind |-> IF (exp[s1] = <<>>) # (r.obs[hi][s1] = <<>>) THEN "first"
              ELSE IF exp[s1][1] # r.obs[hi][s1][1] THEN "first" ELSE "seq",
     id |-> r.rid, h |-> hi - 1, s |-> s1 - 1, exp |-> exp[s1], got |-> r.obs[hi][s1],
     dev |-> SetToSeq(ExplainedBy(r, hi, s1))] :
       s1 \in {x \in DOMAIN exp : exp[x] # r.obs[hi][x]} }

(***************************************************************************)
(* The iteration contract (C09) stated on the observations alone: the      *)
(* sequence yielded from start s is the unfolding of "first match at or    *)
(* after the cursor", the cursor moving to the end of a non-empty match    *)
(* and one character past an empty one.  first(c) is what the engine       *)
(* itself returned first from start c.                                     *)
(***************************************************************************)
RECURSIVE UnfoldObserved(_, _, _)
UnfoldObserved(o, n, cur) ==
  IF cur > n \/ o[cur + 1] = <<>> THEN <<>>
  ELSE LET m == o[cur + 1][1]
           s == m[1][1]  e == m[1][2]
       IN \* a range that is not inside the haystack (the runner's markers for an invalid range or a
          \* panic) ends the unfolding: the sequence is then reported as malformed by WellFormedSeq
          IF s < cur \/ e < s \/ e > n THEN <<m>>
          ELSE <<m>> \o UnfoldObserved(o, n, IF e = s THEN e + 1 ELSE e)

WellFormedSeq(seq, n) ==
  /\ \A k \in DOMAIN seq : seq[k][1][1] >= 0 /\ seq[k][1][1] <= seq[k][1][2] /\ seq[k][1][2] <= n
  /\ \A k \in 1..(Len(seq) - 1) :
        /\ seq[k][1][2] <= seq[k + 1][1][1]          \* no overlap
        /\ seq[k][1][1] < seq[k + 1][1][1]           \* starts strictly increase
  /\ Len(seq) <= n + 1

IterMismatchesOf(r, hi) ==
  LET o == r.obs[hi]
      n == Len(r.hays[hi])
  IN { [kind |-> "iter", id |-> r.rid, h |-> hi - 1, s |-> s1 - 1,
        exp |-> UnfoldObserved(o, n, s1 - 1), got |-> o[s1]] :
          s1 \in {x \in DOMAIN o :
                    \/ o[x] # UnfoldObserved(o, n, x - 1)
                    \/ ~WellFormedSeq(o[x], n)
                    \/ (x = n + 2 /\ o[x] # <<>>)
                    \/ (o[x] # <<>> /\ o[x][1][1][1] < x - 1)} }

\* the record with its tree prepared once (class sets evaluated), as field past
WithPrepared(r0) ==
  LET past == Prepare(r0.ast, EnvOf(r0.fl))
  IN [x \in DOMAIN r0 \cup {"past"} |-> IF x = "past" THEN past ELSE r0[x]]

Judgement(r0) ==
  LET r == WithPrepared(r0) IN
  IF r.compile.opt # "ok" \/ r.compile.noopt # "ok" THEN [mm |-> {}, nontrivial |-> 0]
  ELSE LET per == [hi \in DOMAIN r.hays |->
                     LET exp == Expected(r, hi)
                     IN [mm |-> SemMismatchesOf(r, hi, exp) \cup IterMismatchesOf(r, hi),
                         nt |-> IF exp[1] # <<>> THEN 1 ELSE 0]]
       IN [mm |-> UNION {per[hi].mm : hi \in DOMAIN per},
           nontrivial |-> FoldLeft(LAMBDA acc, x : acc + x.nt, 0, per)]

Evaluations(r) ==
  FoldLeft(LAMBDA acc, h : acc + Len(h) + 2, 0, r.hays)

RECURSIVE TakeSome(_, _)
TakeSome(S, k) == IF k = 0 \/ S = {} THEN {} ELSE LET x == CHOOSE y \in S : TRUE IN {x} \cup TakeSome(S \ {x}, k - 1)

Report(r) ==
  LET j == Judgement(r)
      kinds == {m.kind : m \in j.mm}
      shown == UNION {TakeSome({m \in j.mm : m.kind = kd}, 3) : kd \in kinds}
  IN /\ \A m \in shown : PrintT("J " \o ToJson(m))
     /\ (r.compile.opt = "ok" /\ r.compile.noopt = "ok")
          \/ PrintT("J " \o ToJson([kind |-> "compile", id |-> r.rid, opt |-> r.compile.opt, noopt |-> r.compile.noopt]))
     /\ PrintT("J " \o ToJson([kind |-> "stat", id |-> r.rid, evals |-> Evaluations(r),
                               nontrivial |-> j.nontrivial, mism |-> Cardinality(j.mm),
                               ndiffs |-> Len(r.diffs), nbad |-> Len(r.bad), nfails |-> Len(r.fails)]))

VARIABLE i
\* (the first state judges nothing: TLC evaluates initial states on a thread with a small stack)
Init == i = 0
Next == IF i = 0 THEN i' \in 1..Min2(NCHAINS, NObs) ELSE i + NCHAINS <= NObs /\ i' = i + NCHAINS
Judged == i = 0 \/ Report(Obs[i])
=============================================================================
