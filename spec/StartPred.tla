------------------------------ MODULE StartPred ------------------------------
(***************************************************************************)
(* The start predicate (src/startpredicate.rs): a necessary condition on   *)
(* the bytes at an offset for a match to start there, derived from the     *)
(* tree, which the search uses to skip offsets (C04).                      *)
(*                                                                         *)
(* PredicateFor(tree, multiline) is the derivation as the code performs    *)
(* it, in the shape the hook dumps it:                                     *)
(*   [kind |-> "Arbitrary"] | [kind |-> "StartAnchored"]                   *)
(*   [kind |-> "ByteSet", bytes |-> ascending] | [kind |-> "ByteSeq", bytes]*)
(* Admits(pred, bytes, off) is what the search does with it.  Sound(tree,  *)
(* ...) states the property at this level: wherever the tree matches       *)
(* (IRSem), the predicate derived from it admits the offset.               *)
(***************************************************************************)
EXTENDS OptPasses

SMax(a, b) == IF a > b THEN a ELSE b
SMin(a, b) == IF a < b THEN a ELSE b

Utf8FirstByte(c) ==
  IF c < 128 THEN c
  ELSE IF c < 2048 THEN 192 + (c \div 64)
  ELSE IF c < 65536 THEN 224 + (c \div 4096)
  ELSE 240 + (c \div 262144)

\* the first bytes of the encodings of the code points of an interval
IvFirstBytes(iv) ==
  LET seg(lo, hi) == IF SMax(iv[1], lo) <= SMin(iv[2], hi)
                     THEN Utf8FirstByte(SMax(iv[1], lo))..Utf8FirstByte(SMin(iv[2], hi)) ELSE {}
  IN seg(0, 127) \cup seg(128, 2047) \cup seg(2048, 65535) \cup seg(65536, CodePointMax)

RECURSIVE IsStartAnchored(_)
IsStartAnchored(n) ==
  CASE n.t = "anchor" -> n.start /\ ~n.ml
    [] n.t = "cat" -> Len(n.xs) > 0 /\ IsStartAnchored(n.xs[1])
    [] n.t = "grp" -> IsStartAnchored(n.b)
    [] n.t = "alt" -> IsStartAnchored(n.xs[1]) /\ IsStartAnchored(n.xs[2])
    [] OTHER -> FALSE

\* abstract predicates
PNone == [k |-> "none"]
PArb == [k |-> "arb"]
PSeq(bs) == [k |-> "seq", bs |-> bs]
PSet(S) == [k |-> "set", s |-> S]

RECURSIVE SharedLen(_, _, _)
SharedLen(a, b, k) == IF k > Len(a) \/ k > Len(b) \/ a[k] # b[k] THEN k - 1 ELSE SharedLen(a, b, k + 1)

Disjunction(x, y) ==
  IF x.k = "arb" \/ y.k = "arb" THEN PArb
  ELSE IF x.k = "seq" /\ y.k = "seq"
       THEN LET sl == SharedLen(x.bs, y.bs, 1) IN
            IF sl > 0 THEN PSeq(SubSeq(x.bs, 1, sl)) ELSE PSet({x.bs[1], y.bs[1]})
  ELSE IF x.k = "set" /\ y.k = "set" THEN PSet(x.s \cup y.s)
  ELSE IF x.k = "set" THEN PSet(x.s \cup {y.bs[1]})
  ELSE PSet(y.s \cup {x.bs[1]})

RECURSIVE Abstract(_), FirstSome(_, _)
FirstSome(xs, k) ==
  IF k > Len(xs) THEN PNone
  ELSE LET a == Abstract(xs[k]) IN IF a.k # "none" THEN a ELSE FirstSome(xs, k + 1)

Abstract(n) ==
  CASE n.t = "bytes" -> PSeq(n.bs)
    [] n.t = "byteset" -> PSet(ISeqToSet(n.bs))
    [] n.t = "charset" -> PSet({Utf8FirstByte(n.cs[k]) : k \in DOMAIN n.cs})
    [] n.t = "bracket" ->
         LET ivs == IF n.neg THEN Inverted(n.ivs) ELSE n.ivs
         IN PSet(UNION {IvFirstBytes(ivs[k]) : k \in DOMAIN ivs})
    [] n.t = "cat" -> FirstSome(n.xs, 1)
    [] n.t = "grp" -> Abstract(n.b)
    [] n.t = "look" -> PNone
    [] n.t \in {"loop", "loop1"} -> IF n.min > 0 THEN Abstract(n.b) ELSE PArb
    [] n.t = "alt" ->
         LET x == Abstract(n.xs[1])  y == Abstract(n.xs[2]) IN
         IF x.k # "none" /\ y.k # "none" THEN Disjunction(x, y) ELSE PArb
    [] OTHER -> PArb   \* empty goal bref strset char any anynl anchor wb

Resolve(a) ==
  CASE a.k \in {"none", "arb"} -> [kind |-> "Arbitrary"]
    [] a.k = "seq" -> IF Len(a.bs) = 0 THEN [kind |-> "Arbitrary"]
                      ELSE IF Len(a.bs) = 1 THEN [kind |-> "ByteSet", bytes |-> a.bs]
                      ELSE [kind |-> "ByteSeq", bytes |-> a.bs]
    [] a.k = "set" -> IF a.s = {} THEN [kind |-> "Arbitrary"]
                      ELSE [kind |-> "ByteSet", bytes |-> SetToSortSeq(a.s, <)]

\* ml is the regex-wide multiline flag
PredicateFor(tree, ml) ==
  IF IsStartAnchored(tree) /\ ~ml THEN [kind |-> "StartAnchored"] ELSE Resolve(Abstract(tree))

\* what the search does with a predicate at byte offset off (0-based) of the bytes hb
Admits(pred, hb, off) ==
  CASE pred.kind = "Arbitrary" -> TRUE
    [] pred.kind = "StartAnchored" -> off = 0
    [] pred.kind = "ByteSet" -> off < Len(hb) /\ hb[off + 1] \in ISeqToSet(pred.bytes)
    [] pred.kind = "ByteSeq" -> off + Len(pred.bytes) <= Len(hb)
                                /\ \A k \in DOMAIN pred.bytes : hb[off + k] = pred.bytes[k]


\* the code point indices of h at which the tree matches but its predicate does not admit the offset
\* (att = IRAttempts(tree, ng, h, uni), pred = PredicateFor(tree, ml))
UnsoundAt(pred, att, h) ==
  LET hb == Utf8Seq(h)
  IN {p \in 0..Len(h) : att[p + 1] # INoMatch /\ ~Admits(pred, hb, ByteOff(h, p))}
Unsound(tree, ng, h, uni, ml) == UnsoundAt(PredicateFor(tree, ml), IRAttempts(tree, ng, h, uni), h)
=============================================================================
