CONSTANT StepLimit = 400000
SPECIFICATION Spec
VIEW View
INVARIANT PosInRangeInv
INVARIANT PosOnBoundaryInv
INVARIANT IpInRangeInv
INVARIANT GroupsInv
INVARIANT StackBoundInv
INVARIANT StepsBounded
PROPERTY Terminates
CHECK_DEADLOCK FALSE
