CONSTANT MaxLen = 3
SPECIFICATION MCSpec
INVARIANT StepOk
INVARIANT DoneMeansCovered
PROPERTY FwdAdjacent
PROPERTY BackAdjacent
PROPERTY DoneAbsorbing
PROPERTY Terminates
CHECK_DEADLOCK FALSE
