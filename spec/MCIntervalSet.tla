---------------------------- MODULE MCIntervalSet ----------------------------
(* TLC configuration of IntervalSet: explores every state and every operation, and prints each
   transition (before, op, arg, after, inverted_interval_count after) once, for the replay. *)
EXTENDS IntervalSet, TLC, Json

\* 0 | 1..0x40 | 0x41..0x5A | 0x5B..0x7F | 0x80..0x7FF | 0x800..0xFFFF | 0x10000..0x10FFFE | 0x10FFFF
MCBounds == <<0, 1, 65, 91, 128, 2048, 65536, 1114111>>

InvCount(after) == Len(Canon(Blocks \ BlocksOf(after)))
MCObserve(before, op, arg, after) ==
  PrintT("J " \o ToJson([before |-> before, op |-> op, arg |-> arg, after |-> after, icount |-> InvCount(after)]))
=============================================================================
