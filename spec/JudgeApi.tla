------------------------------- MODULE JudgeApi -------------------------------
(***************************************************************************)
(* C16: judge the recorded accessor values of every match (runner sem      *)
(* --api) against MatchAPI.  The captures themselves are judged against    *)
(* ESSem by JudgeSem; here every accessor must be the MatchAPI function of  *)
(* the observed range and captures and of the pattern's names as the        *)
(* specification numbers them (RegexAST.Finish).                            *)
(***************************************************************************)
EXTENDS MatchAPI, TLC, Json, IOUtils

Obs == ndJsonDeserialize(IOEnv.OBS)
NObs == Len(Obs)
NCHAINS == 16
Min2(a, b) == IF a < b THEN a ELSE b

\* What is wrong with one recorded match (a set of short strings).
Wrong(r, hi, k) ==
  LET a == r.api[hi][k]
      m == r.obs[hi][1][k]          \* the k-th match from start 0: <<range, cap1, ...>>
      range == m[1]
      caps == Tail(m)
      names == r.names
      probe == [j \in DOMAIN a.named |-> a.named[j][1]]
  IN \* with the wrong number of capture slots nothing else can be evaluated
     IF a.ncaps # r.ng \/ Len(caps) # r.ng THEN {"slot count"} ELSE
     (IF a.range = range /\ a.startend = range /\ a.as_str_ok THEN {} ELSE {"range/start/end/as_str"})
     \cup (IF a.group = [i \in 1..(r.ng + 2) |-> Group(range, caps, i - 1)] THEN {} ELSE {"group(i)"})
     \cup (IF a.groups = Groups(range, caps) /\ a.groups_len = r.ng + 1 THEN {} ELSE {"groups()"})
     \cup (IF \A j \in DOMAIN a.named : a.named[j][2] = NamedGroup(caps, names, probe[j]) THEN {} ELSE {"named_group(name)"})
     \cup (IF a.named_groups = NamedGroups(caps, names) THEN {} ELSE {"named_groups()"})
     \cup (IF a.named_groups_len = Len(NamedGroups(caps, names)) THEN {} ELSE {"named_groups().len()"})
     \cup (IF AtMostOneParticipant(caps, names) THEN {} ELSE {"two groups of one name participate"})
     \cup (IF a.bad = <<>> THEN {} ELSE {"accessor range invalid"})

Mismatches(r) ==
  IF r.compile.opt # "ok" THEN {}
  ELSE UNION { { [kind |-> "api", id |-> r.rid, h |-> hi - 1, k |-> k - 1, wrong |-> SetToSeq(Wrong(r, hi, k)),
                  match |-> r.obs[hi][1][k], api |-> r.api[hi][k], names |-> r.names] :
                   k \in {x \in DOMAIN r.api[hi] : Wrong(r, hi, x) # {}} }
             : hi \in DOMAIN r.hays }

NMatches(r) == IF r.compile.opt # "ok" THEN 0 ELSE FoldLeft(LAMBDA acc, x : acc + Len(x), 0, r.api)

RECURSIVE TakeSome(_, _)
TakeSome(S, n) == IF n = 0 \/ S = {} THEN {} ELSE LET x == CHOOSE y \in S : TRUE IN {x} \cup TakeSome(S \ {x}, n - 1)

Report(r) ==
  LET mm == Mismatches(r)
  IN /\ \A m \in TakeSome(mm, 3) : PrintT("J " \o ToJson(m))
     /\ PrintT("J " \o ToJson([kind |-> "apistat", id |-> r.rid, matches |-> NMatches(r), mism |-> Cardinality(mm)]))

VARIABLE i
\* (the first state judges nothing: TLC evaluates initial states on a thread with a small stack)
Init == i = 0
Next == IF i = 0 THEN i' \in 1..Min2(NCHAINS, NObs) ELSE i + NCHAINS <= NObs /\ i' = i + NCHAINS
Judged == i = 0 \/ Report(Obs[i])
=============================================================================
