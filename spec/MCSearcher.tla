----------------------------- MODULE MCSearcher -----------------------------
(* TLC configuration of Searcher.tla: every match sequence find_iter can yield on a haystack of
   MaxLen bytes (all increasing non-overlapping sequences obeying the lastIndex rule), explored over
   every interleaving of next / next_back. *)
EXTENDS Searcher, TLC, FiniteSets

CONSTANT MaxLen

RECURSIVE SeqsFrom(_, _)
\* match sequences whose next match may begin at cursor cur (cur = MaxLen + 1: nothing more)
SeqsFrom(cur, n) ==
  IF cur > n THEN {<<>>}
  ELSE {<<>>} \cup UNION { { <<<<p[1], p[2]>>>> \o rest : rest \in SeqsFrom(IF p[2] = p[1] THEN p[2] + 1 ELSE p[2], n) }
                           : p \in {q \in (cur..n) \X (cur..n) : q[1] <= q[2]} }
AllSeqs == SeqsFrom(0, MaxLen)

MCInit == \E M \in AllSeqs : InitWith(MaxLen, M)
MCSpec == MCInit /\ [][Next]_vars /\ WF_vars(NextFwd) /\ WF_vars(NextBack)
=============================================================================
