SPECIFICATION TSpec
INVARIANT StepOk
INVARIANT DoneMeansCovered
INVARIANT Finished
CHECK_DEADLOCK FALSE
