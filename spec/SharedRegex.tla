----------------------------- MODULE SharedRegex -----------------------------
(***************************************************************************)
(* C19: a compiled Regex is immutable and safe to share.                   *)
(*                                                                         *)
(* Threads share one program prog.  Each thread runs its own queue of      *)
(* queries; a query is a deterministic computation of Steps[q] steps that  *)
(* reads the program and a scratch state.  In the design the scratch state *)
(* belongs to the search (one per thread, created by Begin): then every    *)
(* query's result is the one sequential use gives, under every             *)
(* interleaving, and the program never changes.  With SharedScratch = TRUE *)
(* the scratch cell lives in the program instead (a cache added to the     *)
(* compiled regex): TLC must then find an interleaving that changes a      *)
(* result - the configuration MCSharedRegexBad checks that it does, which  *)
(* shows the property is not vacuous.                                      *)
(*                                                                         *)
(* The computation is abstract: a step folds the query id and the step     *)
(* number into an accumulator, and (when shared) through the cell.         *)
(***************************************************************************)
EXTENDS Naturals, Sequences, FiniteSets, TLC

CONSTANTS Threads,        \* set of thread ids
          Queue,          \* Queue[t]: the sequence of query ids thread t runs
          Steps,          \* Steps[q]: the number of steps of query q
          SharedScratch   \* FALSE in the design

Mod == 9973
Fold(acc, q, k) == (acc * 31 + 7 * q + k) % Mod

RECURSIVE SeqResult(_, _, _)
\* what sequential use computes for query q
SeqResult(q, k, acc) == IF k > Steps[q] THEN acc ELSE SeqResult(q, k + 1, Fold(acc, q, k))
Expected(q) == SeqResult(q, 1, 0)

VARIABLES prog,      \* the shared program: [code, cell]
          qi,        \* qi[t]: index into Queue[t] of the current query (Len+1 = finished)
          k,         \* k[t]: next step of the current query, 0 = not begun
          acc,       \* acc[t]: the thread's own scratch
          results,   \* results[t]: sequence of results so far
          sched      \* the interleaving so far (history; one entry per action)
vars == <<prog, qi, k, acc, results, sched>>

Prog0 == [code |-> 42, cell |-> 0]

Init == /\ prog = Prog0
        /\ qi = [t \in Threads |-> 1]
        /\ k = [t \in Threads |-> 0]
        /\ acc = [t \in Threads |-> 0]
        /\ results = [t \in Threads |-> <<>>]
        /\ sched = <<>>

Running(t) == qi[t] <= Len(Queue[t])
Q(t) == Queue[t][qi[t]]

\* a search begins: fresh scratch state owned by the search
Begin(t) == /\ Running(t) /\ k[t] = 0
            /\ k' = [k EXCEPT ![t] = 1]
            /\ acc' = [acc EXCEPT ![t] = 0]
            /\ prog' = IF SharedScratch THEN [prog EXCEPT !.cell = 0] ELSE prog
            /\ sched' = Append(sched, t)
            /\ UNCHANGED <<qi, results>>

\* one step of the search
Step(t) == /\ Running(t) /\ k[t] >= 1 /\ k[t] <= Steps[Q(t)]
           /\ IF SharedScratch
              THEN /\ prog' = [prog EXCEPT !.cell = Fold(prog.cell, Q(t), k[t])]
                   /\ acc' = acc
              ELSE /\ acc' = [acc EXCEPT ![t] = Fold(acc[t], Q(t), k[t])]
                   /\ prog' = prog
           /\ k' = [k EXCEPT ![t] = @ + 1]
           /\ sched' = Append(sched, t)
           /\ UNCHANGED <<qi, results>>

\* the search returns its result
End(t) == /\ Running(t) /\ k[t] = Steps[Q(t)] + 1
          /\ results' = [results EXCEPT ![t] = Append(@, IF SharedScratch THEN prog.cell ELSE acc[t])]
          /\ qi' = [qi EXCEPT ![t] = @ + 1]
          /\ k' = [k EXCEPT ![t] = 0]
          /\ sched' = Append(sched, t)
          /\ UNCHANGED <<prog, acc>>

Next == \E t \in Threads : Begin(t) \/ Step(t) \/ End(t)
Spec == Init /\ [][Next]_vars /\ WF_vars(Next)

AllDone == \A t \in Threads : ~Running(t)

(***************************************************************************)
(* The property.                                                           *)
(***************************************************************************)
\* searching never mutates the Regex
ProgImmutable == [][prog' = prog]_vars
\* every query's result is its sequential result, whatever ran before or meanwhile
ResultsSequential ==
  \A t \in Threads : \A j \in DOMAIN results[t] : results[t][j] = Expected(Queue[t][j])
Terminates == <>AllDone
=============================================================================
