------------------------------ MODULE Optimizer ------------------------------
(***************************************************************************)
(* The optimizer (src/optimizer.rs) as a state machine over IR trees: the  *)
(* tree, the pass about to run, and whether a pass of the current round    *)
(* changed the tree.  One action per pass (OptPasses.tla gives the passes).*)
(* Properties, checked by TLC from every tree the real parser produced for *)
(* the enumerated families (MCOptimizer):                                  *)
(*   Preserved     every state's tree means what the initial tree means    *)
(*   WellFormedOK  every state's tree is well formed                       *)
(*   Terminates    the optimizer reaches "done"                            *)
(***************************************************************************)
EXTENDS OptPasses

(***************************************************************************)
(* The state machine.                                                      *)
(***************************************************************************)
VARIABLES tree, pc, changed

OptInit(t0) == tree = t0 /\ pc = "simplify_brackets" /\ changed = FALSE

RunSimplify ==
  /\ pc = "simplify_brackets"
  /\ tree' = Fix("simplify_brackets", tree)
  /\ pc' = RoundPasses[1] /\ changed' = FALSE

RunRoundPass(k) ==
  /\ pc = RoundPasses[k]
  /\ tree' = Fix(RoundPasses[k], tree)
  /\ LET ch == changed \/ (RepeatRounds /\ tree' # tree) IN
       IF k < Len(RoundPasses) THEN pc' = RoundPasses[k + 1] /\ changed' = ch
       ELSE IF ch THEN pc' = RoundPasses[1] /\ changed' = FALSE
       ELSE pc' = "done" /\ changed' = FALSE

OptNext == RunSimplify \/ \E k \in DOMAIN RoundPasses : RunRoundPass(k)

=============================================================================
