------------------------------- MODULE Limits -------------------------------
(***************************************************************************)
(* C07: the resource contract of compilation, as families of adversarially *)
(* large patterns.  A pattern is described compactly as a sequence of      *)
(* parts <<code points, repeat count>> (the runner expands it); exp gives, *)
(* for the modes legacy / u / v, what the property demands:                *)
(*   "ok"  the pattern is a valid ECMAScript pattern inside every          *)
(*         documented limit: it must compile;                              *)
(*   "err" it is not a valid pattern: it must be rejected;                 *)
(*   "any" it exceeds a documented limit (nesting depth 256, 65535 capture *)
(*         groups, 65535 loops) or is merely huge: Ok and Err are both     *)
(*         acceptable, what is demanded is that the call *returns*.        *)
(* In every case a panic, a process death or a call that does not return   *)
(* within the time limit is a violation.                                   *)
(***************************************************************************)
EXTENDS Naturals, Sequences, FiniteSets, SequencesExt, TLC, Json, IOUtils

OutFile == IOEnv.OUT
CONSTANT TIER
Thorough == TIER = "thorough"

MaxDepthOk == 200          \* clearly inside the documented depth limit of 256
MaxGroups == 65535
MaxLoops == 65535

a == <<97>>
P(cps, n) == <<cps, n>>
Case(label, parts, exp) == [label |-> label, parts |-> parts, exp |-> exp]
All(x) == <<x, x, x>>

Big == IF Thorough THEN {1000, 65536, 100000, 1000000} ELSE {1000, 100000}
Depths == {1, 2, 50, 200, 255, 256, 257} \cup Big

\* ( (?: (?= (?! (?<= (?<! (?<n> (?i:
Openers == << <<40>>, <<40, 63, 58>>, <<40, 63, 61>>, <<40, 63, 33>>, <<40, 63, 60, 61>>, <<40, 63, 60, 33>>,
              <<40, 63, 105, 58>> >>
OpenerNames == <<"group", "ncg", "lookahead", "neglookahead", "lookbehind", "neglookbehind", "modifier">>

Nesting ==
  { Case("nest-" \o OpenerNames[k] \o "-" \o ToString(n),
         << P(Openers[k], n), P(a, 1), P(<<41>>, n) >>,
         IF n <= MaxDepthOk /\ (k = 1 => n <= MaxGroups) THEN All("ok") ELSE All("any"))
      : k \in DOMAIN Openers, n \in Depths }
  \cup
  \* nested alternations ( a | ( a | ( ... b ) ) )
  { Case("nest-alt-" \o ToString(n), << P(<<40, 63, 58, 97, 124>>, n), P(<<98>>, 1), P(<<41>>, n) >>,
         IF n <= MaxDepthOk THEN All("ok") ELSE All("any")) : n \in Depths }
  \cup
  \* nested classes, v only: [[[a]]]; without v "[[[a]]]" is a class followed by literal brackets
  { Case("nest-class-" \o ToString(n), << P(<<91>>, n), P(a, 1), P(<<93>>, n) >>,
         <<"ok", IF n = 1 THEN "ok" ELSE "err", IF n <= MaxDepthOk THEN "ok" ELSE "any">>) : n \in Depths }
  \cup
  \* unbalanced: n openers, fewer closers
  { Case("unbalanced-" \o ToString(n), << P(<<40>>, n), P(a, 1), P(<<41>>, n - 1) >>, All("err")) : n \in {1, 3, 300} \cup Big }

Counts == {1, 2, 1000, 65535, 65536} \cup Big

Many ==
  { Case("groups-" \o ToString(n), << P(<<40, 41>>, n) >>, IF n <= MaxGroups THEN All("ok") ELSE All("any")) : n \in Counts }
  \* (the duplicate-name check is quadratic in the number of groups sharing a name, so this family stays small)
  \cup { Case("named-groups-alt-" \o ToString(n), << P(<<40, 63, 60, 110, 62, 41, 124>>, n), P(a, 1) >>, All("ok")) : n \in {1, 2, 1000, 4000} }
  \cup { Case("loops-" \o ToString(n), << P(<<97, 42>>, n) >>, IF n <= MaxLoops THEN All("ok") ELSE All("any")) : n \in Counts }
  \cup { Case("lazy-bounded-loops-" \o ToString(n), << P(<<97, 123, 50, 44, 51, 125, 63>>, n) >>,
              IF n <= 1000 THEN All("ok") ELSE All("any")) : n \in Counts }
  \cup { Case("alternatives-" \o ToString(n), << P(<<97, 124>>, n), P(a, 1) >>, IF n <= 100000 THEN All("ok") ELSE All("any")) : n \in Counts }
  \cup { Case("literal-" \o ToString(n), << P(a, n) >>, All("ok")) : n \in Counts }
  \cup { Case("literal-icase-nonascii-" \o ToString(n), << P(<<223, 8490>>, n) >>, All("ok")) : n \in Counts }
  \cup { Case("lookbehind-literal-" \o ToString(n), << P(<<40, 63, 60, 61>>, 1), P(<<97, 233>>, n), P(<<41>>, 1) >>, All("ok")) : n \in Counts \cap (1..70000) }
  \cup { Case("class-members-" \o ToString(n), << P(<<91>>, 1), P(<<97, 45, 99, 233>>, n), P(<<93>>, 1) >>, All("ok")) : n \in Counts }
  \cup { Case("class-set-ops-" \o ToString(n), << P(<<91, 97>>, 1), P(<<38, 38, 91, 97, 45, 122, 93>>, n), P(<<93>>, 1) >>,
              <<IF n = 1 THEN "ok" ELSE "any", "any", "ok">>) : n \in {1, 2, 1000} }
  \cup { Case("backrefs-" \o ToString(n), << P(<<40, 97, 41>>, 1), P(<<92, 49>>, n) >>, All("ok")) : n \in Counts }
  \cup { Case("hex-zeros-" \o ToString(n), << P(<<92, 117, 123>>, 1), P(<<48>>, n), P(<<54, 49, 125>>, 1) >>,
              <<"any", "ok", "ok">>) : n \in {1, 100, 100000} }
  \cup { Case("long-name-" \o ToString(n), << P(<<40, 63, 60>>, 1), P(<<110>>, n), P(<<62, 97, 41, 92, 107, 60>>, 1), P(<<110>>, n), P(<<62>>, 1) >>,
              All("ok")) : n \in {1, 1000, 100000} }

\* decimal digit strings
Digits(n) == CASE n = "0" -> <<48>> [] n = "1" -> <<49>> [] n = "5" -> <<53>> [] n = "6" -> <<54>>
               [] n = "1000" -> <<49, 48, 48, 48>> [] n = "65535" -> <<54, 53, 53, 51, 53>>
               [] n = "2147483648" -> <<50, 49, 52, 55, 52, 56, 51, 54, 52, 56>>
               [] n = "4294967296" -> <<52, 50, 57, 52, 57, 54, 55, 50, 57, 54>>
               [] n = "18446744073709551616" -> <<49, 56, 52, 52, 54, 55, 52, 52, 48, 55, 51, 55, 48, 57, 53, 53, 49, 54, 49, 54>>
               [] n = "100000000000000000000000" -> <<49>> \o [k \in 1..23 |-> 48]
Nums == {"0", "1", "5", "6", "1000", "65535", "2147483648", "4294967296", "18446744073709551616", "100000000000000000000000"}

HugeCounts ==
  { Case("count-exact-" \o n, << P(<<97, 123>> \o Digits(n) \o <<125>>, 1) >>, All("ok")) : n \in Nums }
  \cup { Case("count-min-" \o n, << P(<<97, 123>> \o Digits(n) \o <<44, 125>>, 1) >>, All("ok")) : n \in Nums }
  \cup { Case("count-max-" \o n, << P(<<97, 123, 48, 44>> \o Digits(n) \o <<125>>, 1) >>, All("ok")) : n \in Nums }
  \cup { Case("count-group-" \o n, << P(<<40, 97, 124, 98, 41, 123>> \o Digits(n) \o <<125>>, 1) >>, All("ok")) : n \in Nums }
  \cup { Case("count-lazy-" \o n, << P(<<40, 63, 58, 97, 63, 41, 123>> \o Digits(n) \o <<44, 125, 63>>, 1) >>, All("ok")) : n \in Nums }
  \cup { Case("backref-number-" \o n, << P(<<40, 97, 41, 92>> \o Digits(n), 1) >>,
              IF n = "0" THEN All("ok") ELSE IF n = "1" THEN All("ok") ELSE <<"any", "err", "err">>) : n \in Nums \ {"0"} }
  \* nested exact counts: the optimizer's unrolling must stay bounded
  \cup { Case("count-nested-" \o n \o "-levels-" \o ToString(k),
              << P(<<40, 63, 58>>, k), P(<<120>>, 1), P(<<41, 123>> \o Digits(n) \o <<125>>, k) >>, All("ok"))
           : n \in {"1", "5", "6", "1000"}, k \in {2, 5, 9, 12, 20, 40} }
  \cup { Case("count-nested-group-" \o n \o "-levels-" \o ToString(k),
              << P(<<40>>, k), P(<<120>>, 1), P(<<41, 123>> \o Digits(n) \o <<125>>, k) >>, All("ok"))
           : n \in {"1", "5", "6"}, k \in {2, 9, 20} }

Cases == SetToSeq(Nesting \cup Many \cup HugeCounts)

ASSUME PrintT(<<"LIMITS", "cases", Len(Cases)>>)
ASSUME ndJsonSerialize(OutFile, Cases)
VARIABLE done
Init == done = TRUE
Next == UNCHANGED done
=============================================================================
