"""./check --selftest: demonstrate that each binding rejects a corrupted record.

For every kind of recorded evidence the judges consume, a small correct sample is produced from the
real code (accepted), then one field is corrupted and the same judge must reject it."""
import json, os, random, subprocess
from . import common as C
from . import sem as S
from . import semchecks as SC


def run():
    work = C.fresh_dir(os.path.join(C.OUT, "work", "selftest"))
    binp = C.build_runner()
    cases, counts = S.gen_families(["F3"], "quick", work)
    small = os.path.join(work, "small.ndjson")
    with open(small, "w") as o:
        for k, line in enumerate(open(cases)):
            if k % 37 == 0 and k < 1500:
                o.write(line)
    n = sum(1 for _ in open(small))
    paths, crashes = S.run_runner(binp, "sem", small, work, ["--progs", "--cost", "--trace-every", "1"], shards=2,
                                  extra_outs=[("--vm-out", "vm"), ("--trace-out", "tr")])
    results = []

    def expect(name, ok_count, bad_count):
        good = ok_count == 0
        rejected = bad_count > 0
        results.append((name, good and rejected, "intact: %d rejections; corrupted: %d rejections" % (ok_count, bad_count)))

    # 1. observations judged against ESSem
    def sem_mismatches(path):
        res, _ = SC.judge_sharded("JudgeSem", "JudgeSem.cfg", path, work, "st", parts=1)
        kf = {f["id"] for f in C.load_known_findings()["findings"]}
        return sum(1 for r in res for j in r.jlines if j["kind"] in ("first", "seq", "iter") and not (j.get("dev") and j["dev"][0] in kf))
    ok = sem_mismatches(paths["obs"])
    lines = open(paths["obs"]).read().splitlines()
    done = False
    for i, l in enumerate(lines):
        r = json.loads(l)
        for hi, per in enumerate(r.get("obs", [])):
            if per and per[0] and not done:
                per[0][0][0][1] += 1 if per[0][0][0][1] < len(r["hays"][hi]) else -1     # move the end of the first match
                lines[i] = json.dumps(r)
                done = True
    cor = os.path.join(work, "obs_corrupt.ndjson")
    open(cor, "w").write("\n".join(lines) + "\n")
    expect("JudgeSem (one match end moved by one)", ok, sem_mismatches(cor))

    # 2. executor traces validated against the machine specifications
    def trace_mismatches(path):
        res = C.tlc("MCVM", "MCVM.cfg", env={"TRACES": path}, workers=4, xmx="4g", timeout=900, workdir=work, allow_violation=True)
        return sum(1 for j in res.jlines if j["kind"] in ("trace", "event")) + (1 if res.violated_invariant() else 0)
    tr = os.path.join(work, "tr_small.ndjson")
    with open(tr, "w") as o:
        for k, line in enumerate(open(paths["tr"])):
            if k < 60:
                o.write(line)
    ok = trace_mismatches(tr)
    lines = open(tr).read().splitlines()
    r = json.loads(lines[0])
    k = next(i for i, e in enumerate(r["ev"]) if e[0] == 1 and i > 2)
    r["ev"][k][1] += 1                                   # one dispatch event reports the wrong instruction pointer
    lines[0] = json.dumps(r)
    cor = os.path.join(work, "tr_corrupt.ndjson")
    open(cor, "w").write("\n".join(lines) + "\n")
    expect("MCVM trace validation (one event's instruction pointer off by one)", ok, trace_mismatches(cor))
    # removing an event (as if a hook were missing)
    r = json.loads(lines[1])
    k = next(i for i, e in enumerate(r["ev"]) if e[0] == 1 and i > 2)
    del r["ev"][k]
    lines2 = list(lines)
    lines2[0] = json.dumps(json.loads(open(tr).read().splitlines()[0]))
    lines2[1] = json.dumps(r)
    cor = os.path.join(work, "tr_corrupt2.ndjson")
    open(cor, "w").write("\n".join(lines2) + "\n")
    expect("MCVM trace validation (one dispatch event removed)", ok, trace_mismatches(cor))

    # 3. machine specifications on dumped bytecode
    def vm_mismatches(path):
        res, _ = SC.judge_sharded("JudgeVM", "JudgeVM.cfg", path, work, "stvm", parts=1)
        return sum(1 for r in res for j in r.jlines if j["kind"] == "vm")
    ok = vm_mismatches(paths["vm"])
    lines = open(paths["vm"]).read().splitlines()
    for i, l in enumerate(lines):
        r = json.loads(l)
        ins = r["progs"]["opt"]["insns"]
        j = next((q for q, x in enumerate(ins) if x["op"] == "ByteSeq"), None)
        if j is not None and any(b for b in r.get("bfirst", [])):
            ins[j]["bytes"] = [b + 1 for b in ins[j]["bytes"]]     # the program matches another literal
            lines[i] = json.dumps(r)
            break
    cor = os.path.join(work, "vm_corrupt.ndjson")
    open(cor, "w").write("\n".join(lines) + "\n")
    expect("JudgeVM (one literal of a dumped program changed)", ok, vm_mismatches(cor))
    # a program that loops where the engine finished: the machine spends its fuel, the engine's step count shows it did not
    lines = open(paths["vm"]).read().splitlines()
    for i, l in enumerate(lines):
        r = json.loads(l)
        ins = r["progs"]["opt"]["insns"]
        j = next((q for q, x in enumerate(ins) if x["op"] == "Jump"), None)
        if j is not None and "esteps" in r:
            ins[j]["target"] = j                                   # a jump to itself
            lines[i] = json.dumps(r)
            break
    cor = os.path.join(work, "vm_corrupt2.ndjson")
    open(cor, "w").write("\n".join(lines) + "\n")
    expect("JudgeVM (a dumped program made to loop: the machine spends its fuel where the engine finished)", ok, vm_mismatches(cor))

    # 3b. the compile chain: recorded trees against IRSem / OptPasses / StartPred / Emit
    def ir_lines(path):
        res, _ = SC.judge_sharded("JudgeIR", "JudgeIR.cfg", path, work, "stir", parts=1, env={"MAXHAYS": 1000})
        kf = {f["id"] for f in C.load_known_findings()["findings"]}
        return [j for r in res for j in r.jlines if j["kind"] in ("irparse", "irpass", "irwf", "opttrace", "predtrace", "predspec", "emittrace")
                and not (j.get("dev") and j["dev"][0] in kf)]
    ok = len(ir_lines(paths["vm"]))
    base = open(paths["vm"]).read().splitlines()

    def corrupt_ir(fn, kinds, name):
        lines = list(base)
        for i, l in enumerate(lines):
            r = json.loads(l)
            if r.get("ir") and fn(r):
                lines[i] = json.dumps(r)
                break
        cor = os.path.join(work, "ir_corrupt.ndjson")
        open(cor, "w").write("\n".join(lines) + "\n")
        expect(name, ok, sum(1 for j in ir_lines(cor) if j["kind"] in kinds))

    def find(n, t):
        if isinstance(n, dict):
            if n.get("t") == t:
                return n
            for x in n.values():
                f = find(x, t)
                if f:
                    return f
        elif isinstance(n, list):
            for x in n:
                f = find(x, t)
                if f:
                    return f
        return None

    def c_stage(r):          # the last recorded tree matches another character
        if len(r["ir"]) < 2:
            return False
        b = find(r["ir"][-1]["ir"], "bytes")
        if not b:
            return False
        b["bs"] = [x + 1 for x in b["bs"]]
        return True
    corrupt_ir(c_stage, ("irpass",), "JudgeIR / IRSem (a literal of the last recorded tree changed: a pass changed the meaning)")
    corrupt_ir(c_stage, ("opttrace",), "JudgeIR / OptPasses (the same corruption: the recorded run is not the specification's)")

    def c_parse(r):          # the parsed tree loses a capture group's end
        g = find(r["ir"][0]["ir"], "grp")
        if not g:
            return False
        g["id"] += 1
        return True
    corrupt_ir(c_parse, ("irparse", "irwf"), "JudgeIR / IRSem vs ESSem (a group id of the parsed tree changed)")

    def c_pred(r):
        sp = r["progs"]["opt"]["start_pred"]
        if sp["kind"] != "ByteSet":
            return False
        sp["bytes"][0] += 1
        return True
    corrupt_ir(c_pred, ("predtrace",), "JudgeIR / StartPred (one byte of a dumped start predicate changed)")

    def c_emit(r):
        ins = r["progs"]["noopt"]["insns"]
        j = next((q for q, x in enumerate(ins) if x["op"] == "Jump"), None)
        if j is None:
            return False
        ins[j]["target"] += 1
        return True
    corrupt_ir(c_emit, ("emittrace",), "JudgeIR / Emit (one Jump target of a dumped program changed)")

    # 4. CodePointSet transitions
    res = C.tlc("MCIntervalSet", "MCIntervalSet.cfg", workers=4, xmx="4g", timeout=900, workdir=work)
    tl = [j for j in res.jlines][:2000]
    good = os.path.join(work, "cp_good.ndjson")
    open(good, "w").write("\n".join(json.dumps(j) for j in tl) + "\n")

    def cp_wrong(path):
        p2, _ = S.run_runner(binp, "cpset", path, work, [], shards=1, label="cpst")
        return sum(1 for l in open(p2["cpst"]) if not json.loads(l)["ok"])
    ok = cp_wrong(good)
    k = next(i for i, j in enumerate(tl) if j["after"])
    tl[k] = dict(tl[k], after=tl[k]["after"][:-1])       # the expected set loses its last interval
    cor = os.path.join(work, "cp_corrupt.ndjson")
    open(cor, "w").write("\n".join(json.dumps(j) for j in tl) + "\n")
    expect("CodePointSet replay (one expected interval list truncated)", ok, cp_wrong(cor))

    # report
    allok = True
    for name, good, detail in results:
        print("%s  %s  (%s)" % ("PASS" if good else "FAIL", name, detail))
        allok = allok and good
    json.dump([{"binding": n, "rejects_corruption": g, "detail": d} for n, g, d in results],
              open(os.path.join(C.EVIDENCE, "selftest.json"), "w"), indent=1)
    return 0 if allok else 2
