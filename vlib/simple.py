"""Generic gen -> runner -> judge pipeline for the checks that do not use the pattern-family machinery."""
import json, os, time
from . import common as C
from . import sem as S
from . import semchecks as SC


def gen(module, tier, workdir, env=None, cache_key=None, timeout=1800):
    """Run a TLC generator module (spec/<module>.tla with <module>[_thorough].cfg) writing $OUT."""
    cache = C.ensure_dir(os.path.join(C.OUT, "cache"))
    key = cache_key or module
    path = os.path.join(cache, "%s.%s.%s.ndjson" % (key, tier, C.spec_hash()))
    if os.path.exists(path) and os.path.getsize(path) > 0:
        return path
    tmp = path + ".tmp"
    if os.path.exists(tmp):
        os.remove(tmp)
    cfg = module + (".cfg" if tier == "quick" else "_thorough.cfg")
    e = dict(env or {})
    e["OUT"] = tmp
    res = C.tlc(module, cfg, env=e, workers=4, xmx="6g", timeout=timeout, workdir=workdir)
    if not os.path.exists(tmp):
        raise C.ToolError("%s wrote nothing:\n%s" % (module, res.text[-2000:]))
    os.rename(tmp, path)
    C.log("generated %s (%s): %d lines in %.1fs" % (key, tier, sum(1 for _ in open(path)), res.wall))
    return path


def pipeline(prop, tier, sub, cases, judge_module, stat_kind, runner_opts=(), binp=None, parts=4, shards=12, judge_env=None):
    work = C.ensure_dir(os.path.join(C.OUT, "work", prop))
    binp = binp or C.build_runner()
    ncases = sum(1 for l in open(cases) if l.strip())
    t0 = time.time()
    paths, crashes = S.run_runner(binp, sub, cases, work, list(runner_opts), shards=min(shards, max(1, ncases)))
    obs = paths["obs"]
    nobs = sum(1 for _ in open(obs))
    C.log("runner %s: %d cases in %.1fs (%d crashes)" % (sub, ncases, time.time() - t0, len(crashes)))
    if nobs + len(crashes) != ncases:
        raise C.ToolError("runner consumed %d of %d cases" % (nobs + len(crashes), ncases))
    t0 = time.time()
    results, njudged = SC.judge_sharded(judge_module, judge_module + ".cfg", obs, work, judge_module, parts=parts if ncases > 40 else 1,
                                        env=judge_env)
    C.log("judge %s: %d records in %.1fs" % (judge_module, njudged, time.time() - t0))
    jl = [j for r in results for j in r.jlines]
    stats = [j for j in jl if j["kind"] == stat_kind]
    if len(stats) != nobs:
        raise C.ToolError("judge reported on %d of %d records" % (len(stats), nobs))
    return {"work": work, "cases": cases, "obs": obs, "crashes": crashes, "jlines": jl, "stats": stats, "ncases": ncases,
            "states": sum(r.distinct for r in results), "generated": sum(r.generated for r in results)}


def record_of(obs_path, rid, _cache={}):
    key = obs_path
    if key not in _cache:
        _cache.clear()
        _cache[key] = S.load_obs_index(obs_path)
    return S.read_record(obs_path, _cache[key], rid)
