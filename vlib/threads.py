"""C19: a compiled Regex is immutable and safe to share (SharedRegex.tla)."""
import json, os, subprocess, time
from . import common as C
from . import sem as S
from . import grammar as GR

CONFIGS = ["MCSharedRegex_2x5", "MCSharedRegex_3x3", "MCSharedRegex_2x2q"]


def autotraits(v):
    tdir = os.path.join(C.HARNESS, "target", "default")
    p = subprocess.run(["cargo", "build", "--offline", "--release", "-p", "autotraits", "--target-dir", tdir], cwd=C.HARNESS,
                       env=dict(os.environ, CARGO_NET_OFFLINE="true"), stdout=subprocess.PIPE, stderr=subprocess.STDOUT, text=True)
    if p.returncode != 0:
        if "E0277" in p.stdout and ("Send" in p.stdout or "Sync" in p.stdout):
            first = [l for l in p.stdout.splitlines() if l.startswith("error[E0277]")][:2]
            v.violation("Regex / Match / Error are not all Send + Sync: %s" % first, {"pipeline": "autotraits", "compiler": p.stdout[-3000:]})
            return False
        raise C.ToolError("cannot build the auto-trait assertions:\n%s" % p.stdout[-3000:])
    r = subprocess.run([os.path.join(tdir, "release", "autotraits")], stdout=subprocess.PIPE, stderr=subprocess.STDOUT, text=True)
    if r.returncode != 0:
        v.violation("moving a Regex to another thread or sharing a Match failed: %s" % r.stdout[-300:], {"pipeline": "autotraits"})
        return False
    return True


def check_c19(tier, replay):
    v = C.Verdict("C19", tier)
    work = C.fresh_dir(os.path.join(C.OUT, "work", "C19"))
    cov = {"states": 0, "transitions": 0, "evaluations": 0, "distinct_nontrivial": 0, "samples": [], "schedules": {}}
    # (a) auto traits
    ok = autotraits(v)
    cov["auto_traits_checked"] = ["Regex", "Match", "Error", "Flags"]
    # (b) the model: every interleaving, and the vacuity guard
    scheds = os.path.join(work, "schedules.ndjson")
    nsched = 0
    with open(scheds, "w") as o:
        for cfg in CONFIGS if tier == "thorough" else CONFIGS[:1] + CONFIGS[2:]:
            res = C.tlc("MCSharedRegex", cfg + ".cfg", workers=4, xmx="4g", timeout=900, workdir=work)
            n = 0
            for j in res.jlines:
                if j["kind"] == "schedule":
                    o.write(json.dumps(j) + "\n")
                    n += 1
            if n == 0:
                raise C.ToolError("%s produced no schedule" % cfg)
            cov["states"] += res.distinct
            cov["transitions"] += res.generated
            cov["schedules"][cfg] = n
            nsched += n
    bad = C.tlc("MCSharedRegex", "MCSharedRegexBad.cfg", workers=2, xmx="2g", timeout=300, workdir=work, allow_violation=True)
    if "is violated" not in bad.text:
        raise C.ToolError("the shared-scratch configuration did not violate the property: the model is vacuous")
    cov["vacuity_guard"] = "MCSharedRegexBad (scratch cell inside the program) violates the property, as it must"
    if not ok:
        return v.finish("model_checking", cov, [])
    # (c) replay on real threads
    if replay:
        rp = json.load(open(replay))["replay"]
        if rp.get("pipeline") == "autotraits":
            return v.finish("model_checking", cov, [])
        cases = os.path.join(work, "cases.ndjson")
        open(cases, "w").write(json.dumps(rp["case"]) + "\n")
        ncases = 1
    else:
        fams = ["F3", "F6"] if tier == "quick" else ["F3", "F4", "F6", "F8"]
        allcases, counts = S.gen_families(fams, tier, work)
        # a deterministic sample keeps the quick tier short: every k-th case
        every = 6 if tier == "quick" else 3
        cases = os.path.join(work, "sample.ndjson")
        ncases = 0
        with open(cases, "w") as o:
            for i, line in enumerate(open(allcases)):
                if i % every == 0:
                    o.write(line)
                    ncases += 1
        cov["families"] = counts
    t0 = time.time()
    paths, crashes = S.run_runner(C.build_runner(), "threads", cases, work, ["--schedules", scheds, "--stress-trials", "12" if tier == "quick" else "24"],
                                  shards=min(8, max(1, ncases)), label="th", timeout=2400)
    runs = stress = perms = n = 0
    for line in open(paths["th"]):
        r = json.loads(line)
        n += 1
        runs += r["runs"]
        stress += r["stress"]
        perms += r["perms"]
        for w in r["wrong"][:3]:
            case = GR.read_line(cases, r["rid"])
            v.violation("/%s/%s: %s: %s" % (r["pats"], r["flags"], w["what"], json.dumps({k: w[k] for k in w if k != "what"})[:400]),
                        {"pipeline": "threads", "case": case, "detail": w})
        if n <= 2:
            cov["samples"].append({"pattern": r["pats"], "flags": r["flags"], "thread_runs": r["runs"], "stress_runs": r["stress"], "orders": r["perms"]})
    for c in crashes:
        v.violation("the threaded replay killed the process (rc=%s)" % c["rc"], {"pipeline": "threads", "case": GR.read_line(cases, c["case"])})
    if n + len(crashes) != ncases:
        raise C.ToolError("threads runner consumed %d of %d cases" % (n, ncases))
    C.log("thread replay: %d regexes, %d scheduled thread runs, %d stress runs, %d query orders in %.1fs" % (n, runs, stress, perms, time.time() - t0))
    cov["traces_validated_against_impl"] = runs
    cov["evaluations"] += runs + stress + perms
    cov["distinct_nontrivial"] += n
    cov["rule"] = ("(a) A crate asserting Regex, Match, Error: Send + Sync is compiled against /repo; failure to compile for E0277 is the "
                   "violation. (b) SharedRegex.tla (threads share an immutable program, all scratch state belongs to the search) is "
                   "model-checked by TLC for 2 threads x 5 actions, 3 threads x 3 actions and 2 threads x 2 queries: the program never "
                   "changes, every result equals the sequential one, everything terminates; the configuration with the scratch cell "
                   "inside the program must violate this (vacuity guard). TLC prints every complete interleaving. (c) The runner imposes "
                   "every one of these interleavings on real threads sharing one cold Regex, through the gate hook (a thread runs its next "
                   "chunk of instruction dispatches only when the schedule names it; chunks are sized from the query's measured step "
                   "count), and compares every result and the program dump with sequential use on fresh regexes; then 8 ungated threads "
                   "released together on a cold Regex / a clone, repeatedly; then every order of four queries on one Regex. "
                   "evaluations = scheduled thread runs + stress runs + query orders.")
    return v.finish("model_checking", cov, ["a data race that changes neither a result nor the program dump is not visible",
                                            "interleavings are imposed at instruction-dispatch granularity; races inside one dispatch are only exercised by the ungated stress"])
