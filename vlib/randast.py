"""Seeded random pattern ASTs (family "R") in the format spec/GenCases.tla writes, for the checks that
judge observations with TLC: compositions the structured families do not contain. Binding B2: the
generator is outside the specification, every observation is still judged by TLC against ESSem."""
import json, random

CHARS = [97, 98, 65, 115, 383, 233, 128512]          # a b A s U+017F e-acute U+1F600
HAYCHARS = [97, 98, 65, 115, 383, 10, 0, 233, 128512]
QUANTS = [(0, -1), (1, -1), (0, 1), (1, 1), (2, 2), (0, 2), (1, 2), (2, -1), (2, 3), (0, 0)]


class Gen:
    def __init__(self, rng, fl):
        self.rng = rng
        self.fl = fl
        self.names = ["n", "m", "k"]
        self.used_names = []

    def leaf(self):
        r = self.rng.random()
        if r < 0.45:
            return {"t": "chr", "c": self.rng.choice(CHARS)}
        if r < 0.55:
            return {"t": "dot"}
        if r < 0.65:
            return {"t": "esc", "e": self.rng.choice(["d", "w", "W", "s", "S", "D"])}
        if r < 0.8:
            items = []
            for _ in range(self.rng.randint(0, 3)):
                k = self.rng.random()
                if k < 0.6:
                    items.append({"k": "c", "c": self.rng.choice(CHARS)})
                elif k < 0.8:
                    lo, hi = sorted([self.rng.choice(CHARS), self.rng.choice(CHARS)])
                    items.append({"k": "r", "lo": lo, "hi": hi})
                else:
                    items.append({"k": "e", "e": self.rng.choice(["d", "w", "W", "s"])})
            return {"t": "cls", "neg": self.rng.random() < 0.3, "items": items}
        if r < 0.85:
            return {"t": "bol"}
        if r < 0.9:
            return {"t": "eol"}
        if r < 0.95:
            return {"t": "wb", "neg": self.rng.random() < 0.4}
        if r < 0.98:
            return {"t": "bref", "n": -1}       # resolved after numbering
        return {"t": "empty"}

    def node(self, depth):
        if depth <= 0 or self.rng.random() < 0.2:
            return self.leaf()
        r = self.rng.random()
        if r < 0.28:
            return {"t": "cat", "xs": [self.node(depth - 1) for _ in range(self.rng.randint(2, 3))]}
        if r < 0.42:
            return {"t": "alt", "xs": [self.node(depth - 1) for _ in range(self.rng.randint(2, 3))]}
        if r < 0.62:
            mn, mx = self.rng.choice(QUANTS)
            return {"t": "rep", "b": self.node(depth - 1), "min": mn, "max": mx, "greedy": self.rng.random() < 0.65}
        if r < 0.78:
            name = []
            if self.rng.random() < 0.2 and len(self.used_names) < len(self.names):
                nm = self.names[len(self.used_names)]
                self.used_names.append(nm)
                name = [ord(c) for c in nm]
            return {"t": "grp", "id": -1, "name": name, "b": self.node(depth - 1)}
        if r < 0.83:
            return {"t": "ncg", "b": self.node(depth - 1)}
        if r < 0.95:
            return {"t": "look", "b": self.node(depth - 1), "behind": self.rng.random() < 0.5, "neg": self.rng.random() < 0.4}
        f = self.rng.choice(["i", "m", "s"])
        return {"t": "mod", "add": [f], "rem": [], "b": self.node(depth - 1)} if self.rng.random() < 0.6 else \
               {"t": "mod", "add": [], "rem": [f], "b": self.node(depth - 1)}


def number(n, k):
    """Pre-order numbering of groups, as RegexAST.Num."""
    t = n["t"]
    if t == "grp":
        n["id"] = k
        return number(n["b"], k + 1)
    if t in ("ncg", "rep", "look", "mod"):
        return number(n["b"], k)
    if t in ("cat", "alt"):
        for x in n["xs"]:
            k = number(x, k)
        return k
    return k


def fix_refs(n, ng, rng):
    t = n["t"]
    if t == "bref":
        if ng == 0:
            n.clear()
            n.update({"t": "empty"})
        else:
            n["n"] = rng.randint(1, ng)
    elif t in ("grp", "ncg", "rep", "look", "mod"):
        fix_refs(n["b"], ng, rng)
    elif t in ("cat", "alt"):
        for x in n["xs"]:
            fix_refs(x, ng, rng)


def names_of(n, out):
    t = n["t"]
    if t == "grp":
        out[n["id"]] = n["name"]
        names_of(n["b"], out)
    elif t in ("ncg", "rep", "look", "mod"):
        names_of(n["b"], out)
    elif t in ("cat", "alt"):
        for x in n["xs"]:
            names_of(x, out)


FLAGSETS = [dict(i=False, m=False, s=False, u=False, v=False), dict(i=True, m=False, s=False, u=False, v=False),
            dict(i=False, m=True, s=False, u=False, v=False), dict(i=False, m=False, s=True, u=True, v=False),
            dict(i=True, m=False, s=False, u=True, v=False), dict(i=True, m=True, s=False, u=False, v=True),
            dict(i=False, m=False, s=False, u=False, v=False)]


def generate(seed, count, depth=4, maxhay=4, nhays=14):
    rng = random.Random(seed)
    out = []
    for _ in range(count):
        fl = rng.choice(FLAGSETS)
        g = Gen(rng, fl)
        ast = g.node(rng.randint(2, depth))
        ng = number(ast, 0)
        fix_refs(ast, ng, rng)
        nm = {}
        names_of(ast, nm)
        hays = [[]]
        seen = {()}
        while len(hays) < nhays:
            h = tuple(rng.choice(HAYCHARS) for _ in range(rng.randint(1, maxhay)))
            if h not in seen:
                seen.add(h)
                hays.append(list(h))
        out.append({"fam": "R", "ast": ast, "ng": ng, "names": [nm.get(k, []) for k in range(ng)], "fl": fl, "sp": 0, "hays": hays})
    return out


def write(path, seed, tier):
    cases = generate(seed, 1500 if tier == "quick" else 25000)
    with open(path, "w") as f:
        for c in cases:
            f.write(json.dumps(c) + "\n")
    return len(cases)
