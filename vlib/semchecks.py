"""Checks decided by the semantic pipeline (spec/ESSem.tla via spec/JudgeSem.tla)."""
import json, os, time
from . import common as C
from . import sem as S

# property -> (families quick, families thorough)
ALLF = ["F1", "F1b", "F2", "F2x", "F3", "F4", "F4b", "F5", "F6", "F7", "F8", "F8m", "F9", "F10", "F11", "F13"]
FAMILIES = {
    "C01": (["F1", "F1b", "F2", "F3", "F4", "F4b", "F5", "F6", "F7", "F8m", "F9", "F10", "F11", "F14", "R"], ALLF + ["F14", "F20", "F8p", "FC1", "FC2", "R"]),
    "C02": (["F1b", "F2", "F2x", "F3", "F4", "F4b", "F5", "F6", "F8", "F9", "F13", "F14"], ALLF + ["F14", "R"]),
    "C03": (["F1", "F1b", "F2", "F3", "F7", "F8", "F8m", "F9", "F11", "R"], ALLF + ["FC2", "R"]),
    "C04": (["F8", "F8m", "F8p", "F5", "F6"], ["F8", "F8m", "F8p", "F1", "F1b", "F5", "F6", "F7", "F9", "F14", "FC2", "R"]),
    "C09": (["F1", "F5", "F4", "F8", "F20"], ["F1", "F2", "F4", "F5", "F8", "F8m", "F8p", "F9", "F14", "F20", "R"]),
    "C13": (["F1", "F3", "F6", "F7", "F13"], ALLF + ["R"]),
    "C16": (["F10", "F11", "F3", "F4", "F4b"], ["F10", "F11", "F3", "F4", "F4b", "F8", "F8m", "F14"]),
    "C12": (["FC1", "FC2", "F6", "F8m"], ["FC1", "FC2", "F6", "F8m", "F1", "F13"]),
}


def split_file(path, k, workdir, label):
    outs = [open(os.path.join(workdir, "%s.part%d.ndjson" % (label, i)), "w") for i in range(k)]
    n = 0
    for line in open(path):
        if line.strip():
            outs[n % k].write(line)
            n += 1
    for o in outs:
        o.close()
    return [o.name for o in outs if os.path.getsize(o.name) > 0], n


def judge_sharded(module, cfg, obs_path, workdir, label, parts=4, env=None, timeout=7200):
    """Judge an ndjson file with several TLC JVMs in parallel (JSON loading is single-threaded)."""
    import concurrent.futures as cf
    files, n = split_file(obs_path, parts, workdir, label)
    if n == 0:
        raise C.ToolError("nothing to judge in %s" % obs_path)
    w = max(2, C.NCPU // max(1, len(files)))

    def one(f):
        e = dict(env or {})
        e["OBS"] = f
        return C.tlc(module, cfg, env=e, workers=w, xmx="5g", timeout=timeout, workdir=workdir)

    with cf.ThreadPoolExecutor(max_workers=len(files)) as ex:
        results = list(ex.map(one, files))
    for f in files:
        os.remove(f)
    return results, n


def value_of(rec, var, h, s):
    """Match sequence of a variant at (h, s): the recorded diff, or the primary's."""
    for d in rec["diffs"]:
        if d["var"] == var and d["h"] == h and d["s"] == s:
            return d["got"]
    v = rec["obs"][h][s]
    return v


PAIRS = {
    # property: list of (variant, reference variant)
    "C02": [("pv_opt", "bt_opt"), ("pv_noopt", "bt_noopt"), ("pv_opt_ascii", "bt_opt_ascii"),
            ("pv_noopt_ascii", "bt_noopt_ascii")],
    "C03": [("bt_noopt", "bt_opt"), ("pv_noopt", "pv_opt"), ("bt_noopt_ascii", "bt_opt_ascii")],
    "C13": [("bt_opt_ascii", "bt_opt"), ("pv_opt_ascii", "pv_opt"), ("bt_noopt_ascii", "bt_noopt"),
            ("pv_noopt_ascii", "pv_noopt")],
    "C04": [("bt_opt_arb", "bt_opt"), ("bt_noopt_arb", "bt_noopt"), ("pv_opt_arb", "pv_opt")],
}


def sample_file(path, every, dst):
    n = 0
    with open(dst, "w") as o:
        for k, line in enumerate(open(path)):
            if k % every == 0:
                o.write(line)
                n += 1
    return n


def run_sem(prop, tier, v, families=None, opts=None, replay_cases=None, want=("sem",), trace_every=0, max_traces=3000,
            vm_every=1, vm_env=None):
    """Run the pipeline; returns dict with results for the property-specific classifier.
    want: subset of {"sem", "vm", "trace", "cost"} - which TLC judges to run."""
    work = C.fresh_dir(os.path.join(C.OUT, "work", prop))
    binp = C.build_runner()
    if replay_cases is not None:
        cases = os.path.join(work, "cases.ndjson")
        with open(cases, "w") as f:
            for c in replay_cases:
                f.write(json.dumps(c) + "\n")
        counts = {"replay": len(replay_cases)}
        trace_every = 1 if "trace" in want else 0
    else:
        fams = families or FAMILIES[prop][0 if tier == "quick" else 1]
        cases, counts = S.gen_families(fams, tier, work)
    ncases = sum(counts.values())
    t0 = time.time()
    ropts = list(opts or [])
    extra = []
    if "vm" in want or "compile" in want or "ir" in want or "optmc" in want:
        ropts += ["--progs"]
        extra.append(("--vm-out", "vm"))
    if "api" in want:
        ropts += ["--api"]
    if "cost" in want or "trace" in want:
        ropts += ["--cost"]
    if "trace" in want:
        ropts += ["--trace-every", str(max(1, trace_every))]
        extra.append(("--trace-out", "tr"))
    paths, crashes = S.run_runner(binp, "sem", cases, work, ropts, shards=min(12, max(1, ncases)), extra_outs=extra)
    obs = paths["obs"]
    C.log("runner: %d cases in %.1fs (%d crashes)" % (ncases, time.time() - t0, len(crashes)))
    nobs = sum(1 for _ in open(obs))
    if nobs + len(crashes) != ncases:
        raise C.ToolError("runner consumed %d of %d cases" % (nobs + len(crashes), ncases))
    R = {"work": work, "cases": cases, "counts": counts, "ncases": ncases, "obs": obs, "crashes": crashes,
         "jlines": [], "stats": [], "states": 0, "generated": 0, "traces_validated": 0, "trace_states": 0,
         "vm_runs": 0, "paths": paths, "cost_ratio": 0}
    big = ncases > 1500
    parts = (8 if big else 4) if ncases > 200 else 1

    def absorb(results):
        for r in results:
            R["jlines"] += r.jlines
            R["states"] += r.distinct
            R["generated"] += r.generated

    def machine_layer(name, fn):
        """The machine-level specifications follow the code's instruction set. If the code has grown an
        instruction or a program shape they do not know, TLC cannot evaluate them: that layer is then
        skipped with a note, and the semantic layers still decide the property (DESIGN.md section 8)."""
        try:
            fn()
        except C.ToolError as e:
            msg = str(e)
            if "timed out" in msg:
                raise
            R.setdefault("skipped_layers", []).append(name)
            v.note("machine layer %s skipped: the specification could not be evaluated on this tree (%s)" % (name, msg[:300].replace("\n", " ")))

    if "sem" in want:
        t0 = time.time()
        results, njudged = judge_sharded("JudgeSem", "JudgeSem.cfg", obs, work, "sem", parts=parts)
        C.log("judge (ESSem): %d records in %.1fs" % (njudged, time.time() - t0))
        absorb(results)
        R["stats"] = [j for j in R["jlines"] if j["kind"] == "stat"]
        if len(R["stats"]) != nobs:
            raise C.ToolError("judge reported on %d of %d records" % (len(R["stats"]), nobs))
    if "api" in want:
        t0 = time.time()
        results, njudged = judge_sharded("JudgeApi", "JudgeApi.cfg", obs, work, "api", parts=parts)
        C.log("judge (accessors): %d records in %.1fs" % (njudged, time.time() - t0))
        absorb(results)
        R["api_matches"] = sum(j["matches"] for j in R["jlines"] if j["kind"] == "apistat")
    if "cost" in want:
        t0 = time.time()
        fuel = ropts[ropts.index("--fuel") + 1] if "--fuel" in ropts else "2000000"
        results, njudged = judge_sharded("JudgeCost", "JudgeCost.cfg", obs, work, "cost", parts=parts, env={"FUEL": fuel})
        C.log("judge (cost): %d records in %.1fs" % (njudged, time.time() - t0))
        absorb(results)
        cs = [j for j in R["jlines"] if j["kind"] == "coststat"]
        if len(cs) != nobs:
            raise C.ToolError("cost judge reported on %d of %d records" % (len(cs), nobs))
        R["cost_ratio"] = max([j["ratio100"] for j in cs] + [0]) / 100.0
        R["cost_runs"] = sum(j["runs"] for j in cs)
        R["cost_undecided"] = sum(j.get("undecided", 0) for j in cs)
        if R["cost_undecided"]:
            v.note("%d run(s) spent the fuel (%s steps) where the permitted bound exceeds it: undecided" % (R["cost_undecided"], fuel))
    if "vm" in want:
        def _vm():
            t0 = time.time()
            vmf = paths["vm"]
            if vm_every > 1 and replay_cases is None:
                vmf = paths["vm"] + ".sample"
                sample_file(paths["vm"], vm_every, vmf)
            results, njudged = judge_sharded("JudgeVM", "JudgeVM.cfg", vmf, work, "vm", parts=parts, env=vm_env)
            C.log("judge (machines on dumped bytecode): %d records in %.1fs" % (njudged, time.time() - t0))
            absorb(results)
            vs = [j for j in R["jlines"] if j["kind"] == "vmstat"]
            R["vm_runs"] = sum(j["runs"] for j in vs)
        machine_layer("JudgeVM", _vm)
    if "compile" in want:
        def _compile():
            # the dumped no_opt program must be the one the emitter specification (Compile.tla) produces
            t0 = time.time()
            results, njudged = judge_sharded("JudgeCompile", "JudgeCompile.cfg", paths["vm"], work, "cmp", parts=parts)
            absorb(results)
            cs = [j for j in R["jlines"] if j["kind"] == "compilestat"]
            R["compile_judged"] = sum(1 for j in cs if j["judged"])
            C.log("judge (emitter skeleton, Compile.tla): %d programs in %.1fs" % (R["compile_judged"], time.time() - t0))
        machine_layer("Compile", _compile)
    if "ir" in want:
        def _ir():
            # the IR recorded after parsing and after every optimizer pass, judged with IRSem.tla against ESSem.tla
            # (parser lowering) and stage against stage (optimizer), and compared with the run of OptPasses.tla
            t0 = time.time()
            env = {"MAXHAYS": 20 if (tier == "quick" and replay_cases is None) else 100000}
            results, njudged = judge_sharded("JudgeIR", "JudgeIR.cfg", paths["vm"], work, "ir", parts=parts, env=env)
            absorb(results)
            st = [j for j in R["jlines"] if j["kind"] == "irstat"]
            R["ir_judged"] = sum(1 for j in st if j["judged"])
            R["ir_stages"] = sum(j["stages"] for j in st)
            R["ir_evals"] = sum(j["evals"] * j["stages"] for j in st)
            R["opt_trace_mismatches"] = sum(1 for j in R["jlines"] if j["kind"] == "opttrace")
            for kd, key, text in (("predtrace", "start_pred_trace_differences", "dumped start predicate(s) differ from StartPred.tla's derivation from the same tree"),
                                  ("emittrace", "emitter_trace_differences", "dumped program(s) differ from Emit.tla's emission of the same tree"),
                                  ("predspec", "start_pred_spec_unsound", "tree(s) match (IRSem.tla) at an offset the predicate derived by StartPred.tla rejects")):
                js = [j for j in R["jlines"] if j["kind"] == kd]
                R[key] = len(js)
                if js:
                    v.note("%d %s (first: %s); a diagnostic - the verdict rests on what the trees and the programs match" % (
                        len(js), text, json.dumps(js[0])[:400]))
            ot = [j for j in R["jlines"] if j["kind"] == "opttrace"]
            if ot:
                v.note("%d recorded optimizer run(s) differ from the run of OptPasses.tla from the same parsed tree (first: pattern record %s, "
                       "stage %s: specification %s, recorded %s); a diagnostic - the verdict rests on what the trees and the programs match" % (
                           len(ot), ot[0]["id"], ot[0]["stage"], ot[0]["exp"].get("pass"), ot[0]["got"].get("pass")))
            C.log("judge (IR stages: IRSem / OptPasses / StartPred / Emit): %d trees of %d patterns in %.1fs, %d optimizer-trace differences" % (
                R["ir_stages"], R["ir_judged"], time.time() - t0, R["opt_trace_mismatches"]))
        machine_layer("JudgeIR", _ir)
    if "optmc" in want:
        def _optmc():
            # Optimizer.tla model-checked from a sample of the parsed trees: every state of the specification's
            # optimizer keeps the meaning of the parsed tree, is well formed, the run ends, and its last tree is the
            # one the real optimizer ended with; once as the code runs (one round) and once as intended (rounds repeat)
            t0 = time.time()
            nsp = 300 if tier == "quick" else 6000
            total = sum(1 for _ in open(paths["vm"]))
            every = max(1, total // nsp)
            spf = paths["vm"] + ".optmc"
            sample_file(paths["vm"], every, spf)
            R["optmc"] = {}
            for cfg in ("MCOptimizer.cfg", "MCOptimizer_intended.cfg"):
                res = C.tlc("MCOptimizer", cfg, env={"OBS": spf, "MAXHAYS": 8 if tier == "quick" else 40}, workers=8, xmx="6g",
                            timeout=3000, workdir=work, allow_violation=True)
                inv = res.violated_invariant()
                R["optmc"][cfg] = {"states": res.distinct, "transitions": res.generated, "violated": inv}
                R["states"] += res.distinct
                R["generated"] += res.generated
                if inv:
                    v.note("Optimizer.tla (%s) from the recorded parsed trees: %s violated - the specification's optimizer and the "
                           "recorded trees disagree; the verdict rests on the recorded stages (JudgeIR) and the matches" % (cfg, inv))
            C.log("Optimizer.tla model-checked from %d parsed trees: %s in %.1fs" % (
                min(total, nsp), json.dumps(R["optmc"]), time.time() - t0))
        machine_layer("MCOptimizer", _optmc)
    if "space" in want:
        def _space():
            # model checking with the machines' real Next relation: every state of every run of a sample of the
            # dumped programs is explored, invariants on every state, termination as a liveness property
            t0 = time.time()
            nsp = 100 if tier == "quick" else 300
            total = sum(1 for _ in open(paths["vm"]))
            every = max(1, total // nsp)
            spf = paths["vm"] + ".space"
            picked = []
            kept_hays = []
            # the exploration is of every state of every run, so it is kept to the haystacks of at most three
            # characters (an exponential search on five characters is legitimate and has millions of states; the
            # step bound below is about runs that grow for ever, and the cost judge handles long ones)
            with open(spf, "w") as o:
                for k, line in enumerate(open(paths["vm"])):
                    if k % every == 0 and len(picked) < nsp:
                        rj = json.loads(line)
                        keep = [i for i, h in enumerate(rj["hays"]) if len(h) <= 3]
                        if not keep:
                            continue
                        rj["hays"] = [rj["hays"][i] for i in keep]
                        if "bfirst" in rj:
                            rj["bfirst"] = [rj["bfirst"][i] for i in keep if i < len(rj["bfirst"])]
                        o.write(json.dumps(rj) + "\n")
                        picked.append(rj["rid"])
                        kept_hays.append(keep)
            # depth-first queue: a run that never ends is followed to the step bound at once instead of after every
            # other run has been explored to the same depth (33 s instead of > 25 min on such a tree; same result otherwise)
            # (the step bound guards the exploration against runs that grow for ever; it has to sit above the longest
            # legitimate run: about 1 200 steps in the quick tier, tens of thousands for the thorough tier's {2,} nests)
            try:
                res = C.tlc("MCVMSpace", "MCVMSpace.cfg" if tier == "quick" else "MCVMSpace_thorough.cfg", env={"OBS": spf}, workers=8,
                            xmx="10g", timeout=1500, workdir=work, allow_violation=True, deque=True)
            except C.ToolError as e:
                if "timed out" not in str(e):
                    raise
                R.setdefault("skipped_layers", []).append("MCVMSpace")
                v.note("machine state spaces (MCVMSpace): the exploration did not finish in 25 minutes and was abandoned; the step "
                       "measurements, the machine runs and the validated traces decide")
                return
            inv = res.violated_invariant()
            R["space_states"] = res.distinct
            R["states"] += res.distinct
            R["generated"] += res.generated
            R["space_programs"] = len(picked)
            if inv:
                import re as _re
                m = _re.search(r"rec = (\d+)", res.text)
                mh = _re.search(r"hi = (\d+)", res.text)
                mw = _re.search(r'which = "(\w+)"', res.text)
                me = _re.search(r'eng = "(\w+)"', res.text)
                R["space_violation"] = {"what": inv, "rid": picked[int(m.group(1)) - 1] if m else None, "h": kept_hays[int(m.group(1)) - 1][int(mh.group(1)) - 1] if (m and mh) else None,
                                        "prog": mw.group(1) if mw else None, "engine": me.group(1) if me else None, "tlc": res.text[-2500:]}
            C.log("machine state spaces (MCVMSpace): %d programs, %d states in %.1fs%s" % (len(picked), res.distinct, time.time() - t0,
                  (" VIOLATED " + inv) if inv else ""))
        machine_layer("MCVMSpace", _space)
    if "trace" in want:
        def _trace():
            t0 = time.time()
            tr = paths["tr"]
            # bound the number of validated runs (deterministically: the first max_traces lines)
            ntr = 0
            trimmed = tr + ".trim"
            with open(trimmed, "w") as o:
                for line in open(tr):
                    if ntr >= max_traces:
                        break
                    o.write(line)
                    ntr += 1
            if ntr > 0:
                res = C.tlc("MCVM", "MCVM.cfg", env={"TRACES": trimmed}, workers=C.NCPU, xmx="8g", timeout=3000,
                            workdir=work, allow_violation=True)
                inv = res.violated_invariant()
                R["jlines"] += res.jlines
                R["trace_states"] = res.distinct
                R["states"] += res.distinct
                R["generated"] += res.generated
                R["traces_validated"] = len([j for j in res.jlines if j["kind"] == "tracestat"])
                R["trace_inv"] = inv
                R["trace_inv_text"] = res.text[-3000:] if inv else ""
                C.log("trace validation: %d runs, %d validated, %d states in %.1fs%s" %
                      (ntr, R["traces_validated"], res.distinct, time.time() - t0, (" INVARIANT " + inv) if inv else ""))
            R["ntraces"] = ntr
        R["ntraces"] = 0
        machine_layer("MCVM", _trace)
    return R


def classify(prop, R, v, kinds_sem=(), pairs=(), use_bad=False, use_fails=None):
    """Turn judge lines and variant differences into violations of `prop`."""
    idx = S.load_obs_index(R["obs"])
    cache = {}

    def rec(i):
        if i not in cache:
            if len(cache) > 64:
                cache.clear()
            cache[i] = S.read_record(R["obs"], idx, i)
        return cache[i]

    samples = []
    kf = {f["id"]: f for f in C.load_known_findings()["findings"] if prop in f["properties"]}
    # recorded findings of other properties: an observation that differs from the reference exactly as one of
    # them says is that finding showing through, not a violation of this property (whose own comparison - entry
    # point against entry point, the iteration contract on the engine's own first matches - is made separately)
    kf_other = {f["id"]: f for f in C.load_known_findings()["findings"] if prop not in f["properties"]}
    for j in R["jlines"]:
        kd = j["kind"]
        if kd not in kinds_sem:
            continue
        if kd in ("first", "seq", "iter"):
            if j.get("dev") and j["dev"][0] in kf:
                f = kf[j["dev"][0]]
                v.known_finding(f["id"], f["what"])
                continue
            if j.get("dev") and j["dev"][0] in kf_other:
                R.setdefault("explained_by_findings_of_other_properties", {}).setdefault(j["dev"][0], 0)
                R["explained_by_findings_of_other_properties"][j["dev"][0]] += 1
                continue
            r = rec(j["id"])
            what = "%s: /%s/%s on %s from %d: expected %s, engine %s" % (
                kd, r.get("pats"), r.get("flags"), r["hays"][j["h"]], j["s"], j["exp"], j["got"])
            v.violation(what, {"pipeline": "sem", "case": S.small_case(r, j["h"]), "kind": kd,
                               "start": j["s"], "expected": j["exp"], "observed": j["got"]})
        elif kd == "compile":
            r = rec(j["id"])
            v.violation("compile: /%s/%s opt=%s noopt=%s" % (r.get("pats"), r.get("flags"), j["opt"], j["noopt"]),
                        {"pipeline": "sem", "case": S.small_case(r), "kind": "compile"})
        elif kd == "vm":
            r = rec(j["id"])
            what = "machines on the %s program of /%s/%s on %s: BacktrackVM %s, PikeVM %s, engine %s, invariants %s" % (
                j["prog"], r.get("pats"), r.get("flags"), r["hays"][j["h"]], j["bt"], j["pv"], j["obs"], j["bad"])
            v.violation(what, {"pipeline": "sem", "case": S.small_case(r, j["h"]), "kind": "vm", "detail": j})
        elif kd == "api":
            r = rec(j["id"])
            what = "accessors of match %s of /%s/%s on %s: wrong: %s (names %s; observed %s)" % (
                j["match"], r.get("pats"), r.get("flags"), r["hays"][j["h"]], j["wrong"], j["names"],
                json.dumps({k: j["api"][k] for k in ("group", "groups", "named", "named_groups")}))
            v.violation(what, {"pipeline": "sem", "case": S.small_case(r, j["h"]), "kind": "api", "detail": j})
        elif kd == "emit":
            r = rec(j["id"])
            k = next((i for i in range(min(len(j["exp"]), len(j["got"]))) if j["exp"][i] != j["got"][i]), min(len(j["exp"]), len(j["got"])))
            what = "the no_opt program of /%s/%s is not the one the emitter specification produces: at instruction %d expected %s, dumped %s (loops %s, groups %s)" % (
                r.get("pats"), r.get("flags"), k, j["exp"][k] if k < len(j["exp"]) else None, j["got"][k] if k < len(j["got"]) else None, j["loops"], j["groups"])
            # A program that differs from the emitter specification is not in itself a violation of the
            # property (a behaviour-preserving change of the emitter would differ too): it is reported as a
            # diagnostic; the verdict rests on the matches (DESIGN.md section 8).
            R["emit_mismatches"] = R.get("emit_mismatches", 0) + 1
            if R["emit_mismatches"] <= 3:
                v.note(what)
        elif kd in ("irparse", "irpass"):
            if kd == "irparse" and j.get("dev") and j["dev"][0] in kf:
                f = kf[j["dev"][0]]
                v.known_finding(f["id"], f["what"])
                continue
            if kd == "irparse" and j.get("dev") and j["dev"][0] in kf_other:
                continue
            r = rec(j["id"])
            if kd == "irparse":
                what = "the parsed tree (IR) of /%s/%s does not mean what the pattern means: anchored attempt at %d of %s: pattern %s, tree %s" % (
                    r.get("pats"), r.get("flags"), j["s"], r["hays"][j["h"]], j["exp"], j["got"])
            else:
                what = "optimizer pass %s changed the meaning of the tree of /%s/%s: anchored attempt at %d of %s: before %s, after %s" % (
                    j["pass"], r.get("pats"), r.get("flags"), j["s"], r["hays"][j["h"]], j["exp"], j["got"])
            v.violation(what, {"pipeline": "sem", "case": S.small_case(r, j["h"]), "kind": kd, "detail": j})
        elif kd == "irwf":
            r = rec(j["id"])
            what = "the tree (IR) of /%s/%s after %s is not well formed: %s" % (r.get("pats"), r.get("flags"), j["pass"], "; ".join(j["what"]))
            v.violation(what, {"pipeline": "sem", "case": S.small_case(r), "kind": kd, "detail": j})
        elif kd == "pred":
            r = rec(j["id"])
            what = "start predicate %s of the %s program of /%s/%s rejects byte offset %d of %s where an anchored attempt succeeds" % (
                json.dumps(j["pred"]), j["prog"], r.get("pats"), r.get("flags"), j["at"], r["hays"][j["h"]])
            v.violation(what, {"pipeline": "sem", "case": S.small_case(r, j["h"]), "kind": "pred", "detail": j})
        elif kd == "cost":
            r = rec(j["id"])
            what = "%s on /%s/%s on %s: steps %s depth %s exceed %d = K*%d+K0 (reference search cost %d)" % (
                j["var"], r.get("pats"), r.get("flags"), r["hays"][j["h"]], j["steps"], j["depth"], j["bound"], j["ref"], j["ref"])
            v.violation(what, {"pipeline": "sem", "case": S.small_case(r, j["h"]), "kind": "cost", "detail": j})
        elif kd == "event":
            r = rec(j["id"])
            what = "recorded position invalid: %s of /%s/%s on %s: event %s (kind, ip, pos, depth, fwd) at step %d" % (
                j["var"], r.get("pats"), r.get("flags"), r["hays"][j["h"]], j["event"], j["at"])
            v.violation(what, {"pipeline": "sem", "case": S.small_case(r, j["h"]), "kind": "event", "detail": j})
        elif kd == "trace":
            r = rec(j["id"])
            what = "run is not a behaviour of the machine: %s of /%s/%s on %s: %s at event %d: event %s, machine %s" % (
                j["var"], r.get("pats"), r.get("flags"), r["hays"][j["h"]], j["why"], j["at"], j["event"], j["model"])
            v.violation(what, {"pipeline": "sem", "case": S.small_case(r, j["h"]), "kind": "trace", "detail": j})
    if R.get("space_violation"):
        sv = R["space_violation"]
        r = rec(sv["rid"]) if sv["rid"] is not None else {}
        what = ("the %s machine on the %s program of /%s/%s on %s: %s" % (
            {"bt": "backtracking", "pv": "Pike"}.get(sv["engine"], "?"), sv["prog"], r.get("pats"), r.get("flags"),
            r["hays"][sv["h"]] if r and sv["h"] is not None else None,
            "does not terminate (a configuration repeats)" if sv["what"] == "temporal" else "violates " + sv["what"]))
        v.violation(what, {"pipeline": "sem", "case": S.small_case(r, sv["h"]) if r else None, "kind": "space", "detail": sv})
    if "traceinv" in kinds_sem and R.get("trace_inv"):
        v.violation("machine invariant %s violated on a validated run" % R["trace_inv"],
                    {"pipeline": "sem", "kind": "traceinv", "invariant": R["trace_inv"], "tlc": R.get("trace_inv_text", "")})
    for st in R["stats"]:
        if pairs and st["ndiffs"] > 0:
            r = rec(st["id"])
            seen = set()
            for d in r["diffs"]:
                for (a, b) in pairs:
                    if d["var"] in (a, b):
                        key = (a, b, d["h"], d["s"])
                        if key in seen:
                            continue
                        seen.add(key)
                        va, vb = value_of(r, a, d["h"], d["s"]), value_of(r, b, d["h"], d["s"])
                        if va != vb and len(seen) <= 6:
                            what = "%s vs %s: /%s/%s on %s from %d: %s vs %s" % (
                                a, b, r.get("pats"), r.get("flags"), r["hays"][d["h"]], d["s"], va, vb)
                            v.violation(what, {"pipeline": "sem", "case": S.small_case(r, d["h"]), "kind": "variant",
                                               "variants": [a, b], "start": d["s"], "observed": [va, vb]})
        if use_bad and st["nbad"] > 0:
            r = rec(st["id"])
            for b in r["bad"][:3]:
                v.violation("bad range: /%s/%s on %s from %d: %s" % (r.get("pats"), r.get("flags"), r["hays"][b["h"]], b["s"], b["what"]),
                            {"pipeline": "sem", "case": S.small_case(r, b["h"]), "kind": "bad", "start": b["s"]})
        if use_fails and st["nfails"] > 0:
            r = rec(st["id"])
            for f in r["fails"][:3]:
                if use_fails(f):
                    h = f.get("h")
                    v.violation("failure: /%s/%s on %s: %s [%s]" % (r.get("pats"), r.get("flags"),
                                r["hays"][h] if h is not None else None, f["what"], f.get("var")),
                                {"pipeline": "sem", "case": S.small_case(r, h), "kind": "fail", "what": f["what"]})
    # a process death is a violation of memory safety / termination, attributed to its case
    for c in R["crashes"]:
        if use_fails:
            line = None
            with open(R["cases"]) as f:
                for k, l in enumerate(f):
                    if k == c["case"]:
                        line = json.loads(l)
                        break
            v.violation("process died (rc=%s) on case %d" % (c["rc"], c["case"]),
                        {"pipeline": "sem", "case": line, "kind": "crash"})
    for fid, n in sorted(R.get("explained_by_findings_of_other_properties", {}).items()):
        v.note("%d observation(s) differ from the reference exactly as recorded finding %s (a finding of %s, not of %s)" % (
            n, fid, ", ".join(kf_other[fid]["properties"]), prop))
    some = R["stats"][:3] or [{"id": j["id"]} for j in R["jlines"] if j["kind"] in ("coststat", "vmstat")][:3]
    for st in some:
        r = rec(st["id"])
        samples.append({"pattern": r.get("pats"), "flags": r.get("flags"), "haystack": r["hays"][min(2, len(r["hays"]) - 1)],
                        "observed_from_0": r["obs"][min(2, len(r["hays"]) - 1)][0]})
    return samples


def coverage(R, samples, rule):
    evals = sum(s["evals"] for s in R["stats"]) + R.get("ir_evals", 0) + R.get("api_matches", 0) + R.get("cost_runs", 0) + R.get("vm_runs", 0) + R.get("traces_validated", 0)
    nontriv = sum(s["nontrivial"] for s in R["stats"])
    if not R["stats"]:
        nontriv = len([j for j in R["jlines"] if j["kind"] in ("coststat", "vmstat") and j.get("runs", 0) > 0])
    return {
        "states": R["states"], "transitions": R["generated"],
        "traces_validated_against_impl": R.get("traces_validated", 0),
        "trace_states": R.get("trace_states", 0), "machine_runs_on_dumped_bytecode": R.get("vm_runs", 0),
        "emitter_skeletons_judged": R.get("compile_judged", 0), "emitter_skeleton_mismatches": R.get("emit_mismatches", 0),
        "ir_trees_judged": R.get("ir_stages", 0), "ir_patterns_judged": R.get("ir_judged", 0),
        "optimizer_trace_differences": R.get("opt_trace_mismatches", 0), "optimizer_model": R.get("optmc", {}),
        "start_pred_trace_differences": R.get("start_pred_trace_differences", 0),
        "emitter_trace_differences": R.get("emitter_trace_differences", 0),
        "machine_state_space_states": R.get("space_states", 0), "machine_state_space_programs": R.get("space_programs", 0),
        "evaluations": evals, "distinct_nontrivial": nontriv,
        "programs": R["ncases"], "families": R["counts"],
        "cost_runs_undecided_for_lack_of_fuel": R.get("cost_undecided", 0),
        "explained_by_findings_of_other_properties": R.get("explained_by_findings_of_other_properties", {}),
        "rule": rule, "samples": samples, "exhaustive": True, "skipped_machine_layers": R.get("skipped_layers", []),
    }
