"""C08 (accepted language = ECMAScript grammar) and C07 (compilation is total).

B1: TLC enumerates every string of at most n tokens over several token alphabets as a state space
(spec/GenGrammar.tla) and prints the verdict of spec/ESGrammar.tla in the three grammar modes; the
runner compiles each string under twelve flag sets with and without the optimizer; the verdicts are
compared here.  B2: seeded single-edit neighbours of the rendered family patterns are compiled by the
runner and judged by TLC (spec/JudgeGrammar.tla).  C07 additionally runs the resource families of
spec/Limits.tla under a watchdog."""
import hashlib, json, os, random, subprocess, time
from . import common as C
from . import sem as S
from . import semchecks as SC

FLAGSETS = ["", "i", "m", "s", "ims", "u", "iu", "msu", "v", "iv", "msv", "imsv"]


def mode_of(fs):
    return 2 if "v" in fs else 1 if "u" in fs else 0


CHARS = list("a108()[]{}|*+?^$.\\-,:<>=!&kniuxcqdp/b") + ["\ud800", "\U0001F600"]
GROUP = ["(", ")", "(?:", "(?=", "(?!", "(?<=", "(?<!", "(?<n>", "(?<m>", "\\k<n>", "\\1", "\\2", "{2}", "{2,1}", "{1,}",
         "(?i:", "(?-i:", "(?i-i:", "(?-:", "|", "a", "*", "?", "+", "\\b", "^", "{", "}", "\\k", "\\0", "\\8", ".", "[a]"]
CLASS = ["[", "[^", "]", "a", "b", "-", "&", "&&", "--", "\\p{L}", "\\P{L}", "\\p{RGI_Emoji}", "\\P{RGI_Emoji}", "\\p{Foo}",
         "\\p{Script=Greek}", "\\q{a|bc}", "\\q{a}", "\\q{}", "\\q{", "\\d", "\\W", "\\-", "\\&", "\\b", "\\B", "^", "!", "|", "(",
         "\\cA", "\\c", "\\u{61}", "\\x", "1", "\\1", "&-b", "!-b"]
NAMES = ["((?<n>)|a)", "(a|(?<n>))", "(?<n>)", "(?<m>)", "|", "(", "(?:", ")", "\\k<n>", "a", "(?=", "(?<n", ">", "(?<1>)", "(?<$_>)",
         "\\k<m>", "\\k<$_>", "*", "[\\k]", "\\k"]
UESC = ["\\u", "\\u{", "\\x", "{", "}", "+", "-", "61", "0061", "0", "d83d", "\\", "g", "[", "]", " ", "110000", "\\udc00"]
PROPS = ["\\p", "\\P", "{", "}", "L", "Lu", "gc", "=", "Script", "Greek", "RGI_Emoji", "Any", "[", "[^", "]", "a", "lu", "sc",
         "Script_Extensions", "Grek", "_", " "]

# where the capture-group pre-scan and the parser proper must agree on what is a group
PRESCAN = ["[[]", "[\\]]", "[(]", "[)]", "[(?<n>]", "\\(", "\\[", "(a)", "(?<n>a)", "(?<n>b)", "\\1", "\\2", "\\k<n>", "\\k<m>", "(?:", ")", "|",
           "[a", "]", "[^", "\\]", "[[a]]", "(?<=(b))", "[\\q{(}]"]

# modifier groups around constructs whose validity differs between the u and the v grammar
MODSETS = ["(?i:", "(?-i:", "(?s:", "(?m-i:", ")", "[a--b]", "[\\q{ab}]", "[(]", "[a-]", "[!!]", "[a|b]", "\\p{RGI_Emoji}", "[[a]&&[a]]",
           "a", "|", "[^a]", "[a&&b]", "[\\q{ab}&&\\q{ab}]", "[^\\q{ab}&&\\q{ab}]", "[^\\q{a}]", "(", "\\1", "{2}", "[\\w--\\q{|_}]", "[[a-z]&&\\q{}]"]

# name -> (tokens, wrap or None, maxlen quick, maxlen thorough)
FAMILIES = {
    "chars": (CHARS, None, 3, 4),
    "group": (GROUP, None, 3, 4),
    "class": (CLASS, ("[", "]"), 3, 3),
    "negclass": (CLASS, ("[^", "]"), 3, 3),
    "names": (NAMES, None, 4, 5),
    "uescape": (UESC, None, 4, 5),
    "props": (PROPS, None, 4, 5),
    "prescan": (PRESCAN, None, 3, 4),
    "modsets": (MODSETS, None, 3, 4),
}


def cps(s):
    return [ord(ch) for ch in s]


def show(p):
    return "".join(chr(c) if 32 <= c < 127 else "\\u{%X}" % c for c in p)


def gen_family(name, tier, workdir):
    tokens, wrap, mq, mt = FAMILIES[name]
    maxlen = mq if tier == "quick" else mt
    cache = C.ensure_dir(os.path.join(C.OUT, "cache"))
    key = hashlib.sha256(json.dumps([tokens, wrap, maxlen]).encode()).hexdigest()[:10]
    path = os.path.join(cache, "grammar.%s.%d.%s.%s.ndjson" % (name, maxlen, key, C.spec_hash()))
    meta = path + ".meta"
    if os.path.exists(path) and os.path.exists(meta):
        return path, json.load(open(meta))
    tokf = os.path.join(workdir, "tokens_%s.ndjson" % name)
    with open(tokf, "w") as f:
        for t in tokens:
            f.write(json.dumps(cps(t)) + "\n")
    env = {"TOKENS": tokf, "MAXLEN": maxlen}
    if wrap:
        wf = os.path.join(workdir, "wrap_%s.ndjson" % name)
        with open(wf, "w") as f:
            f.write(json.dumps(cps(wrap[0])) + "\n" + json.dumps(cps(wrap[1])) + "\n")
        env["WRAP"] = wf
    res = C.tlc("GenGrammar", "GenGrammar.cfg", env=env, workers=C.NCPU, xmx="10g", timeout=3000, workdir=workdir)
    n = 0
    with open(path + ".tmp", "w") as o:
        for j in res.jlines:
            o.write(json.dumps(j) + "\n")
            n += 1
    expected = sum(len(tokens) ** k for k in range(maxlen + 1))
    if n != expected or res.distinct != expected:
        raise C.ToolError("GenGrammar %s: %d lines, %d states, expected %d" % (name, n, res.distinct, expected))
    os.rename(path + ".tmp", path)
    m = {"strings": n, "states": res.distinct, "transitions": res.generated, "maxlen": maxlen, "tokens": len(tokens)}
    json.dump(m, open(meta, "w"))
    C.log("generated grammar family %s: %d strings (<= %d tokens of %d) in %.1fs" % (name, n, maxlen, len(tokens), res.wall))
    return path, m


def run_grammar(cases, workdir, label, opts=(), shards=12, timeout=1500):
    binp = C.build_runner()
    ncases = sum(1 for l in open(cases) if l.strip())
    paths, crashes = S.run_runner(binp, "grammar", cases, workdir, list(opts), shards=min(shards, max(1, ncases)), label=label,
                                  timeout=timeout)
    obs = {}
    for line in open(paths[label]):
        r = json.loads(line)
        obs[r["rid"]] = r
    os.remove(paths[label])
    if len(obs) + len(crashes) != ncases:
        raise C.ToolError("runner grammar consumed %d of %d cases" % (len(obs) + len(crashes), ncases))
    return obs, crashes, ncases


def b1(tier, v07, v08, workdir, cov):
    """Exhaustive token families.  Returns nothing; fills the verdicts and coverage."""
    kf = {f["id"]: f for f in C.load_known_findings()["findings"]}
    fams = list(FAMILIES)
    for name in fams:
        path, meta = gen_family(name, tier, workdir)
        t0 = time.time()
        obs, crashes, ncases = run_grammar(path, workdir, "g_" + name, opts=["--limit-ms", "20000"])
        cov["states"] += meta["states"]
        cov["transitions"] += meta["transitions"]
        cov["families"][name] = meta["strings"]
        nmis = 0
        with open(path) as f:
            for idx, line in enumerate(f):
                o = obs.get(idx)
                if o is None:
                    continue
                c = json.loads(line)
                cov["evaluations"] += 2 * len(FLAGSETS)
                if "ok" in c["exp"]:
                    cov["distinct_nontrivial"] += 1
                for which in ("res", "noopt"):
                    for k, fs in enumerate(FLAGSETS):
                        g = o[which][k]
                        e = c["exp"][mode_of(fs)]
                        if g == "p":
                            v07.violation("compile panicked: /%s/%s%s: %s" % (show(c["p"]), fs, " (no_opt)" if which == "noopt" else "", o.get("msgs")),
                                          {"pipeline": "grammar", "case": {"p": c["p"]}, "flags": fs, "no_opt": which == "noopt"})
                            continue
                        if e == "unk":
                            cov["not_judged"] += 1
                            continue
                        if (e == "ok") != (g == "o"):
                            if mode_of(fs) == 0 and "D14" in kf and (c["d14"] == "ok") == (g == "o"):
                                v08.known_finding("D14", kf["D14"]["what"])
                                continue
                            nmis += 1
                            if nmis <= 40:
                                v08.violation("/%s/%s%s: the grammar says %s, the compiler says %s" % (
                                    show(c["p"]), fs, " (no_opt)" if which == "noopt" else "", e, "Ok" if g == "o" else "Err"),
                                    {"pipeline": "grammar", "case": {"p": c["p"]}, "flags": fs, "expected": e,
                                     "observed": g, "no_opt": which == "noopt"})
                if idx < 2:
                    cov["samples"].append({"pattern": show(c["p"]), "expected_legacy_u_v": c["exp"], "observed": o["res"]})
        for cr in crashes:
            line = read_line(path, cr["case"])
            v07.violation("compile killed the process or did not return (rc=%s): /%s/" % (cr["rc"], show(line.get("p", []))),
                          {"pipeline": "grammar", "case": {"p": line.get("p")}, "rc": cr["rc"]})
        C.log("grammar family %s: %d strings, %d mismatches, %d crashes, %.1fs" % (name, ncases, nmis, len(crashes), time.time() - t0))


def read_line(path, k):
    with open(path) as f:
        for i, l in enumerate(f):
            if i == k:
                return json.loads(l)
    return {}


# ---------------------------------------------------------------------------------------------
# B2: single-edit neighbours of rendered family patterns, judged by TLC
# ---------------------------------------------------------------------------------------------
EDIT_ALPHABET = cps("()[]{}|*+?^$.\\-,:<>=!&knux1209/") + [0x61, 0xE9, 0x1F600, 0xD800]


def neighbours(p, rng, k):
    out = []
    for _ in range(k):
        q = list(p)
        op = rng.randrange(5)
        if op == 0 and q:
            del q[rng.randrange(len(q))]
        elif op == 1:
            q.insert(rng.randrange(len(q) + 1), rng.choice(EDIT_ALPHABET))
        elif op == 2 and q:
            q[rng.randrange(len(q))] = rng.choice(EDIT_ALPHABET)
        elif op == 3 and len(q) > 1:
            i = rng.randrange(len(q) - 1)
            q[i], q[i + 1] = q[i + 1], q[i]
        elif q:
            i = rng.randrange(len(q))
            q.insert(i, q[i])
        out.append(q)
    return out


def rendered_patterns(tier, workdir, fams):
    """Patterns of the semantic families as the runner renders them (runner `render`)."""
    binp = C.build_runner()
    cases, counts = S.gen_families(fams, tier, workdir)
    out = os.path.join(workdir, "rendered.ndjson")
    if os.path.exists(out):
        os.remove(out)
    p = subprocess.run([binp, "render", "--cases", cases, "--out", out], stdout=subprocess.PIPE, stderr=subprocess.PIPE)
    if p.returncode != 0:
        raise C.ToolError("runner render failed: %s" % p.stderr.decode()[-500:])
    pats = []
    seen = set()
    for line in open(out):
        r = json.loads(line)
        t = tuple(r["p"])
        if t not in seen:
            seen.add(t)
            pats.append(r["p"])
    return pats


def judge_strings(strings, workdir, label, v07, v08, cov, limit_ms=20000):
    """Compile the strings and let TLC judge the outcomes."""
    cases = os.path.join(workdir, label + "_cases.ndjson")
    with open(cases, "w") as f:
        for s in strings:
            f.write(json.dumps({"p": s}) + "\n")
    obs, crashes, ncases = run_grammar(cases, workdir, label, opts=["--with-p", "--limit-ms", str(limit_ms)])
    obsf = os.path.join(workdir, label + "_obs.ndjson")
    with open(obsf, "w") as f:
        for rid in sorted(obs):
            o = dict(obs[rid])
            o["resv"] = list(o["res"])
            o["nooptv"] = list(o["noopt"])
            f.write(json.dumps(o) + "\n")
    for cr in crashes:
        line = read_line(cases, cr["case"])
        v07.violation("compile killed the process or did not return (rc=%s): /%s/" % (cr["rc"], show(line.get("p", []))),
                      {"pipeline": "grammar", "case": {"p": line.get("p")}, "rc": cr["rc"]})
    for o in obs.values():
        for which in ("res", "noopt"):
            if "p" in o[which]:
                k = o[which].index("p")
                v07.violation("compile panicked: /%s/%s: %s" % (show(o["p"]), FLAGSETS[k], o.get("msgs")),
                              {"pipeline": "grammar", "case": {"p": o["p"]}, "flags": FLAGSETS[k]})
    if not obs:
        return
    results, n = SC.judge_sharded("JudgeGrammar", "JudgeGrammar.cfg", obsf, workdir, label, parts=8 if len(obs) > 4000 else 2)
    kf = {f["id"]: f for f in C.load_known_findings()["findings"]}
    nstat = 0
    for r in results:
        cov["states"] += r.distinct
        cov["transitions"] += r.generated
        for j in r.jlines:
            if j["kind"] == "gstat":
                nstat += 1
                cov["evaluations"] += 2 * len(FLAGSETS)
                cov["not_judged"] += j["unk"]
                cov["distinct_nontrivial"] += 1 if j["anyok"] else 0
            elif j["kind"] == "grammar":
                if j["dev"] and j["dev"][0] in kf:
                    v08.known_finding(j["dev"][0], kf[j["dev"][0]]["what"])
                    continue
                v08.violation("/%s/%s%s: the grammar says %s, the compiler says %s" % (
                    show(j["p"]), j["flags"], " (no_opt)" if j["noopt"] else "", j["exp"], "Ok" if j["got"] == "o" else "Err"),
                    {"pipeline": "grammar", "case": {"p": j["p"]}, "flags": j["flags"], "expected": j["exp"], "observed": j["got"]})
    if nstat != len(obs):
        raise C.ToolError("JudgeGrammar reported on %d of %d records" % (nstat, len(obs)))


def b2(tier, v07, v08, workdir, cov):
    fams = ["F1", "F3", "F4", "F5", "F10"] if tier == "quick" else ["F1", "F2", "F3", "F4", "F5", "F6", "F8", "F10"]
    pats = rendered_patterns(tier, workdir, fams)
    rng = random.Random(C.seed())
    per = 4 if tier == "quick" else 8
    budget = 30000 if tier == "quick" else 400000
    rng.shuffle(pats)
    strings = []
    seen = set()
    for p in pats:
        for q in [p] + neighbours(p, rng, per):
            t = tuple(q)
            if t not in seen:
                seen.add(t)
                strings.append(q)
        if len(strings) >= budget:
            break
    cov["families"]["near-valid (seeded single edits of %d rendered patterns)" % len(pats)] = len(strings)
    judge_strings(strings, workdir, "nv", v07, v08, cov)


def limits(tier, v07, workdir, cov):
    from . import simple as SP
    cases = SP.gen("Limits", tier, workdir)
    # big patterns: four flag sets are enough (the resource guards do not depend on i/m/s)
    S.MEM_LIMIT_GB = 24          # a million alternatives need a few GB; unbounded growth still aborts
    try:
        obs, crashes, ncases = run_grammar(cases, workdir, "lim", opts=["--flagsets", ",i,u,iv", "--limit-ms", "60000"], shards=8,
                                           timeout=3000)
    finally:
        S.MEM_LIMIT_GB = 8
    sets = ["", "i", "u", "iv"]
    n = 0
    with open(cases) as f:
        for idx, line in enumerate(f):
            c = json.loads(line)
            o = obs.get(idx)
            if o is None:
                continue
            n += 1
            cov["evaluations"] += 2 * len(sets)
            cov["distinct_nontrivial"] += 1
            for which in ("res", "noopt"):
                for k, fs in enumerate(sets):
                    g = o[which][k]
                    e = c["exp"][mode_of(fs)]
                    if g == "p":
                        v07.violation("limit family %s, flags '%s'%s: compile panicked: %s" % (c["label"], fs, " (no_opt)" if which == "noopt" else "", o.get("msgs")),
                                      {"pipeline": "grammar", "case": {"parts": c["parts"], "label": c["label"]}, "flags": fs})
                    elif (e == "ok" and g != "o") or (e == "err" and g != "e"):
                        v07.violation("limit family %s, flags '%s'%s: expected %s, got %s" % (c["label"], fs, " (no_opt)" if which == "noopt" else "", e, g),
                                      {"pipeline": "grammar", "case": {"parts": c["parts"], "label": c["label"]}, "flags": fs, "expected": e})
            if idx % 60 == 0:
                cov["samples"].append({"limit_family": c["label"], "expected_legacy_u_v": c["exp"], "observed": o["res"], "ms": o["ms"]})
    for cr in crashes:
        c = read_line(cases, cr["case"])
        v07.violation("limit family %s: compile killed the process or did not return within 60 s (rc=%s)" % (c.get("label"), cr["rc"]),
                      {"pipeline": "grammar", "case": {"parts": c.get("parts"), "label": c.get("label")}, "rc": cr["rc"]})
    cov["families"]["limits"] = n + len(crashes)


def new_cov():
    return {"states": 0, "transitions": 0, "evaluations": 0, "distinct_nontrivial": 0, "not_judged": 0, "families": {},
            "samples": [], "exhaustive": True}


class Quiet(C.Verdict):
    """A verdict collector for the property that is not being reported by this run."""

    def __init__(self):
        self.violations = []
        self.known = {}
        self.notes = []

    def violation(self, what, replay):
        self.violations.append((what, None))


def replay_case(prop, replay, v07, v08, workdir, cov):
    rp = json.load(open(replay))["replay"]
    case = rp["case"]
    if "parts" in case:
        cases = os.path.join(workdir, "replay_cases.ndjson")
        with open(cases, "w") as f:
            f.write(json.dumps({"parts": case["parts"], "label": case.get("label", "replay"), "exp": ["any", "any", "any"]}) + "\n")
        obs, crashes, _ = run_grammar(cases, workdir, "rp", opts=["--flagsets", ",i,u,iv", "--limit-ms", "60000"], shards=1)
        for o in obs.values():
            if "p" in o["res"] or "p" in o["noopt"]:
                v07.violation("compile panicked on %s: %s" % (case.get("label"), o.get("msgs")), rp)
        for cr in crashes:
            v07.violation("compile killed the process or did not return (rc=%s) on %s" % (cr["rc"], case.get("label")), rp)
        C.log("replay %s: res=%s" % (case.get("label"), [o["res"] for o in obs.values()]))
    else:
        judge_strings([case["p"]], workdir, "rp", v07, v08, cov)


def check_c08(tier, replay):
    v08 = C.Verdict("C08", tier)
    v07 = Quiet()
    work = C.fresh_dir(os.path.join(C.OUT, "work", "C08"))
    cov = new_cov()
    if replay:
        replay_case("C08", replay, v07, v08, work, cov)
    else:
        b1(tier, v07, v08, work, cov)
        b2(tier, v07, v08, work, cov)
    cov["rule"] = ("TLC enumerates, as a state space (GenGrammar.tla: a state is a token sequence), every string of at most n tokens over "
                   "seven token alphabets (single characters incl. a lone surrogate and a supplementary character; group/assertion/"
                   "quantifier/modifier/backreference tokens; class and class-set tokens wrapped in [..] and [^..]; named-group tokens; "
                   "\\u/\\x escape fragments; property-escape fragments) and evaluates ESGrammar.tla's Verdict in the legacy, u and v "
                   "grammars; the runner compiles each string under 12 flag sets with and without the optimizer and Ok/Err must equal "
                   "the verdict in both directions. Then seeded single-edit neighbours (delete/insert/substitute/transpose/duplicate) of "
                   "the rendered patterns of the semantic families are compiled and judged by TLC (JudgeGrammar.tla). "
                   "evaluations = (string, flag set, pipeline) triples; a string is non-trivial when it is valid in at least one mode; "
                   "'unk' verdicts (corners the transcription does not decide) are counted in not_judged and never alarmed.")
    return v08.finish("exploration", cov, ["ESGrammar.tla is a hand transcription of ECMA-262 22.2.1 + Annex B.1.2 (ES2025 with modifiers and duplicate named groups)",
                                           "property names outside the spec's three certain tables and non-ASCII group names are not judged"])


def check_c07(tier, replay):
    v07 = C.Verdict("C07", tier)
    v08 = Quiet()
    work = C.fresh_dir(os.path.join(C.OUT, "work", "C07"))
    cov = new_cov()
    if replay:
        replay_case("C07", replay, v07, v08, work, cov)
    else:
        limits(tier, v07, work, cov)
        b1(tier, v07, v08, work, cov)
        b2(tier, v07, v08, work, cov)
    cov["rule"] = ("Every compile of every string of the C08 exploration (exhaustive short token strings in 12 flag sets x 2 pipelines, and "
                   "seeded near-valid edits) must return Ok or Err: a panic is caught and recorded per case, a process death (stack "
                   "overflow, abort, OOM) or a compile call that does not return within the watchdog limit (20 s; 60 s for the "
                   "resource families) is attributed to its case. The resource families of Limits.tla (nesting of 8 kinds of "
                   "brackets to depth 1..10^5/10^6, 1..10^6 groups / loops / alternatives / literal characters / class members, "
                   "counts up to 10^23, nested exact counts up to 40 levels, long names) state what the property demands per mode: "
                   "Ok inside the documented limits, Err for invalid input, 'returns' beyond them. Non-trivial: every limit case and "
                   "every string valid in some mode.")
    return v07.finish("exploration", cov, ["a compile that needs more than the watchdog limit counts as not returning; on the unchanged tree the slowest case takes about 1 s",
                                           "code points above 0x10FFFF are outside from_unicode's documented domain and are not generated"])
