"""Shared plumbing for the ./check driver: paths, process helpers, TLC, evidence, verdicts."""
import hashlib, json, os, re, shutil, signal, subprocess, sys, time

ROOT = os.path.dirname(os.path.dirname(os.path.abspath(__file__)))
SPEC = os.path.join(ROOT, "spec")
HARNESS = os.path.join(ROOT, "harness")
OUT = os.path.join(ROOT, "out")
EVIDENCE = os.path.join(ROOT, "evidence")
REPO = "/repo"
NCPU = os.cpu_count() or 4


class ToolError(Exception):
    """The checker itself failed (build, TLC crash, timeout): exit status 2, never a verdict."""


def log(*a):
    print(*a, file=sys.stderr, flush=True)


def ensure_dir(p):
    os.makedirs(p, exist_ok=True)
    return p


def fresh_dir(p):
    shutil.rmtree(p, ignore_errors=True)
    os.makedirs(p)
    return p


def seed():
    try:
        return int(os.environ.get("VERIF_SEED", "1"))
    except ValueError:
        return 1


def spec_hash():
    h = hashlib.sha256()
    for f in sorted(os.listdir(SPEC)):
        if f.endswith(".tla") or f.endswith(".cfg"):
            h.update(f.encode())
            h.update(open(os.path.join(SPEC, f), "rb").read())
    return h.hexdigest()[:16]


# ----------------------------------------------------------------------------------------------
# building the runner
# ----------------------------------------------------------------------------------------------
_built = {}


def build_runner(variant="default", profile="release", nightly=False):
    """Build (or refresh) the runner against /repo's working tree; returns the binary path."""
    key = (variant, profile, nightly)
    if key in _built:
        return _built[key]
    tdir = os.path.join(HARNESS, "target", variant + ("-nightly" if nightly else ""))
    cmd = ["cargo"] + (["+nightly"] if nightly else []) + ["build", "--offline", "-p", "runner",
           "--target-dir", tdir]
    if profile == "release":
        cmd.append("--release")
    else:
        cmd += ["--profile", profile]
    if variant != "default":
        cmd += ["--no-default-features", "--features", variant]
    env = dict(os.environ, CARGO_NET_OFFLINE="true")
    t0 = time.time()
    p = subprocess.run(cmd, cwd=HARNESS, env=env, stdout=subprocess.PIPE, stderr=subprocess.STDOUT, text=True)
    if p.returncode != 0:
        raise ToolError("cargo build failed (%s):\n%s" % (" ".join(cmd), p.stdout[-4000:]))
    log("built runner[%s,%s] in %.1fs" % (variant, profile, time.time() - t0))
    binp = os.path.join(tdir, "release" if profile == "release" else profile, "runner")
    _built[key] = binp
    return binp


# ----------------------------------------------------------------------------------------------
# TLC
# ----------------------------------------------------------------------------------------------
import itertools
_counter = itertools.count()
STATE_RE = re.compile(r"(\d+) states generated, (\d+) distinct states found")


class TlcResult:
    def __init__(self, text, wall):
        self.text = text
        self.wall = wall
        self.generated = 0
        self.distinct = 0
        for m in STATE_RE.finditer(text):
            self.generated, self.distinct = int(m.group(1)), int(m.group(2))
        self.jlines = []
        for line in text.splitlines():
            line = line.strip()
            if line.startswith('"J '):
                try:
                    inner = json.loads(line)
                    self.jlines.append(json.loads(inner[2:]))
                except Exception as e:  # a garbled line is a tool problem
                    raise ToolError("cannot parse judge line: %r (%s)" % (line[:200], e))

    def violated_invariant(self):
        m = re.search(r"Invariant (\w+) is violated", self.text) or re.search(r"Action property (\w+) is violated", self.text)
        if m:
            return m.group(1)
        if re.search(r"Temporal propert(y|ies) .*violated", self.text):
            return "temporal"
        return None


def tlc(module, cfg, env=None, workers=None, xmx="6g", timeout=3600, workdir=None, extra=None,
        deque=False, allow_violation=False):
    """Run TLC on spec/<module>.tla with spec/<cfg>; returns TlcResult. Raises ToolError on a crash."""
    workers = workers or min(NCPU, 16)
    workdir = ensure_dir(workdir or os.path.join(OUT, "tlc"))
    meta = os.path.join(workdir, "md_%s_%d_%d" % (module, os.getpid(), next(_counter)))
    jopts = "-Xss256m -Xmx%s" % xmx
    if deque:
        jopts += " -Dtlc2.tool.queue.IStateQueue=StateDeque"
    e = dict(os.environ)
    e["JAVA_TOOL_OPTIONS"] = jopts
    for k, v in (env or {}).items():
        e[k] = str(v)
    cmd = ["timeout", str(timeout), "tlc", "-workers", str(workers), "-metadir", meta, "-cleanup",
           "-noGenerateSpecTE", "-config", os.path.join(SPEC, cfg)] + (extra or []) + [os.path.join(SPEC, module + ".tla")]
    t0 = time.time()
    p = subprocess.run(cmd, cwd=SPEC, env=e, stdout=subprocess.PIPE, stderr=subprocess.STDOUT, text=True)
    wall = time.time() - t0
    shutil.rmtree(meta, ignore_errors=True)
    text = p.stdout
    with open(os.path.join(workdir, "tlc_%s_%d.log" % (module, os.getpid())), "a") as lf:
        lf.write(text)
    if p.returncode == 124:
        raise ToolError("TLC timed out after %ss on %s/%s" % (timeout, module, cfg))
    res = TlcResult(text, wall)
    bad = ("Error: " in text or "Exception" in text) and not (allow_violation and res.violated_invariant())
    if bad or (p.returncode != 0 and not (allow_violation and res.violated_invariant())):
        lines = [l for l in text.splitlines() if not l.startswith('"J ')]
        k = next((n for n, l in enumerate(lines) if l.startswith("Error:")), max(0, len(lines) - 40))
        tail = "\n".join(lines[k:k + 60])[:4000]
        raise ToolError("TLC failed on %s/%s (exit %d):\n%s" % (module, cfg, p.returncode, tail))
    return res


# ----------------------------------------------------------------------------------------------
# known findings, verdicts, evidence
# ----------------------------------------------------------------------------------------------
def load_known_findings():
    p = os.path.join(ROOT, "known_findings.json")
    if not os.path.exists(p):
        return {"findings": [], "fixed": []}
    return json.load(open(p))


class Verdict:
    """Collects violations / known findings of one check run and renders the required output."""

    def __init__(self, prop, tier):
        self.prop = prop
        self.tier = tier
        self.violations = []
        self.known = {}
        self.notes = []
        self.t0 = time.time()
        self.replay_dir = fresh_dir(os.path.join(OUT, "replay", prop))

    def violation(self, what, replay):
        """replay: a JSON-serialisable object that `./check <prop> --replay` can re-run."""
        n = len(self.violations)
        path = os.path.join(self.replay_dir, "%s_%03d.json" % (self.prop, n))
        if n < 200:
            with open(path, "w") as f:
                json.dump({"property": self.prop, "what": what, "replay": replay}, f, indent=1)
        self.violations.append((what, path))

    def known_finding(self, fid, what):
        self.known.setdefault(fid, what)

    def note(self, s):
        self.notes.append(s)
        log("NOTE: " + s)

    def finish(self, level, coverage, assumptions, extra=None):
        wall = time.time() - self.t0
        for fid, what in sorted(self.known.items()):
            print("KNOWN-FINDING: property=%s %s: %s" % (self.prop, fid, what))
        shown = 0
        for what, path in self.violations:
            if shown < 25:
                print("VIOLATION property=%s replay=%s" % (self.prop, path))
                log("  " + what[:400])
            shown += 1
        if shown > 25:
            log("... %d violations in total" % shown)
        ev = {
            "property_id": self.prop,
            "tier": self.tier,
            "seed": seed(),
            "level": level,
            "coverage": coverage,
            "assumptions": assumptions,
            "wall_s": round(wall, 2),
            "violations": len(self.violations),
            "known_findings": sorted(self.known.keys()),
            "notes": self.notes,
        }
        if extra:
            ev.update(extra)
        ensure_dir(EVIDENCE)
        with open(os.path.join(EVIDENCE, self.prop + ".json"), "w") as f:
            json.dump(ev, f, indent=1, sort_keys=True)
        log("%s %s: %d violation(s), %d known finding(s), %.1fs" %
            (self.prop, self.tier, len(self.violations), len(self.known), wall))
        return 1 if self.violations else 0


def run_procs(cmds, timeout, env=None):
    """Run commands in parallel; returns list of (returncode, stderr_tail)."""
    procs = []
    for c in cmds:
        procs.append(subprocess.Popen(c, stdout=subprocess.DEVNULL, stderr=subprocess.PIPE, env=env))
    out = []
    deadline = time.time() + timeout
    for p in procs:
        try:
            _, err = p.communicate(timeout=max(1, deadline - time.time()))
            out.append((p.returncode, err.decode("utf-8", "replace")[-2000:]))
        except subprocess.TimeoutExpired:
            p.kill()
            _, err = p.communicate()
            out.append(("timeout", err.decode("utf-8", "replace")[-2000:]))
    return out
