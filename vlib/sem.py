"""The semantic pipeline shared by C01/C02/C03/C04/C05/C06/C09/C13:
TLC enumerates pattern families -> runner executes them on the real engine under every variant ->
TLC judges the observations against the reference semantics (and the VM models)."""
import json, os, shutil, subprocess, time
from . import common as C


def gen_family(fam, tier):
    """TLC-enumerated case file for a family (cached per spec hash: it depends on spec/ only)."""
    cache = C.ensure_dir(os.path.join(C.OUT, "cache"))
    if fam == "R":
        # seeded random ASTs (binding B2): generated here, judged by TLC like every other family
        from . import randast
        path = os.path.join(cache, "R.%s.seed%d.ndjson" % (tier, C.seed()))
        if not os.path.exists(path):
            n = randast.write(path, C.seed(), tier)
            C.log("generated family R (%s, seed %d): %d random patterns" % (tier, C.seed(), n))
        return path
    path = os.path.join(cache, "%s.%s.%s.ndjson" % (fam, tier, C.spec_hash()))
    if os.path.exists(path) and os.path.getsize(path) > 0:
        return path
    tmp = path + ".tmp"
    if os.path.exists(tmp):
        os.remove(tmp)
    cfg = "GenCases.cfg" if tier == "quick" else "GenCases_thorough.cfg"
    res = C.tlc("GenCases", cfg, env={"FAMILY": fam, "OUT": tmp}, workers=2, xmx="4g", timeout=1800)
    if not os.path.exists(tmp):
        raise C.ToolError("GenCases wrote nothing for %s:\n%s" % (fam, res.text[-2000:]))
    os.rename(tmp, path)
    C.log("generated family %s (%s): %d cases in %.1fs" % (fam, tier, sum(1 for _ in open(path)), res.wall))
    return path


def gen_families(fams, tier, workdir):
    """Concatenate the case files of several families; returns (path, counts)."""
    import concurrent.futures as cf
    with cf.ThreadPoolExecutor(max_workers=4) as ex:
        paths = list(ex.map(lambda f: gen_family(f, tier), fams))
    out = os.path.join(workdir, "cases.ndjson")
    counts = {}
    with open(out, "w") as o:
        for fam, p in zip(fams, paths):
            n = 0
            for line in open(p):
                if line.strip():
                    o.write(line if line.endswith("\n") else line + "\n")
                    n += 1
            counts[fam] = n
    return out, counts


MEM_LIMIT_GB = 8


def limit_memory():
    """Address-space limit for a runner process: a search or a compile that allocates without bound
    aborts (and is attributed to its case) instead of exhausting the machine."""
    import resource
    lim = MEM_LIMIT_GB << 30
    resource.setrlimit(resource.RLIMIT_AS, (lim, lim))


def run_runner(binp, sub, cases, workdir, opts, shards=12, timeout=1800, label="obs", extra_outs=()):
    """Run `runner <sub>` over the cases in shards; a shard that dies is restarted after the case that
    killed it, and the death is recorded as data. extra_outs: additional (flag, label) output files.
    Returns (paths dict label->file, crashes)."""
    crashes = []
    labels = [("--out", label)] + list(extra_outs)
    outs = {lab: [] for _, lab in labels}
    pending = []
    for i in range(shards):
        for _, lab in labels:
            o = os.path.join(workdir, "%s.%d.ndjson" % (lab, i))
            if os.path.exists(o):
                os.remove(o)
            outs[lab].append(o)
        pending.append((i, 0))
    deadline = time.time() + timeout
    rounds = 0
    ncrash = {}
    while pending:
        rounds += 1
        if rounds > 50:
            raise C.ToolError("runner keeps dying; giving up")
        procs = []
        for i, skip in pending:
            cmd = [binp, sub, "--cases", cases, "--shard", "%d/%d" % (i, shards), "--skip", str(skip)] + opts
            for flag, lab in labels:
                cmd += [flag, outs[lab][i]]
            procs.append((i, skip, subprocess.Popen(cmd, stdout=subprocess.DEVNULL, stderr=subprocess.PIPE, preexec_fn=limit_memory)))
        pending = []
        for i, skip, p in procs:
            try:
                _, err = p.communicate(timeout=max(5, deadline - time.time()))
                rc = p.returncode
            except subprocess.TimeoutExpired:
                p.kill()
                _, err = p.communicate()
                rc = "timeout"
            if rc == 0:
                continue
            err = err.decode("utf-8", "replace")
            last = [l for l in err.splitlines() if l.startswith("CASE ")]
            if rc == 2 and not last:
                raise C.ToolError("runner usage error: %s" % err[-500:])
            if not last:
                raise C.ToolError("runner died before its first case (rc=%s): %s" % (rc, err[-500:]))
            case_idx = int(last[-1].split()[1])
            main_out = outs[label][i]
            done = sum(1 for _ in open(main_out)) if os.path.exists(main_out) else 0
            ncrash[i] = ncrash.get(i, 0) + 1
            crashes.append({"case": case_idx, "rc": str(rc), "stderr": err[-300:], "shard": i})
            # skip everything already written plus the cases that killed the process
            pending.append((i, done + ncrash[i]))
    paths = {}
    for _, lab in labels:
        dst = os.path.join(workdir, lab + ".ndjson")
        with open(dst, "w") as o:
            for p in outs[lab]:
                if os.path.exists(p):
                    shutil.copyfileobj(open(p), o)
                    os.remove(p)
        paths[lab] = dst
    return paths, crashes


def load_obs_index(obs_path):
    """id -> byte offset of the record line (records are large; load lazily)."""
    idx = {}
    with open(obs_path, "rb") as f:
        while True:
            off = f.tell()
            line = f.readline()
            if not line:
                break
            k = line.find(b'"rid":')
            if k >= 0:
                j = k + 6
                e = j
                while line[e:e + 1].isdigit():
                    e += 1
                idx[int(line[j:e])] = off
    return idx


def read_record(obs_path, idx, rid):
    with open(obs_path, "rb") as f:
        f.seek(idx[rid])
        return json.loads(f.readline())


def small_case(rec, h=None):
    """A self-contained, minimal replay case from an observation record."""
    hays = rec.get("hays", [])
    if h is not None and 0 <= h < len(hays):
        hays = [hays[h]]
    return {"fam": rec.get("fam"), "ast": rec.get("ast"), "ng": rec.get("ng"), "names": rec.get("names"),
            "fl": rec.get("fl"), "hays": hays, "pattern": rec.get("pats"), "flags": rec.get("flags")}
