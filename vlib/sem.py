"""The semantic pipeline shared by C01/C02/C03/C04/C05/C06/C09/C13:
TLC enumerates pattern families -> runner executes them on the real engine under every variant ->
TLC judges the observations against the reference semantics (and the VM models)."""
import json, os, shutil, subprocess, time
from . import common as C


def gen_family(fam, tier):
    """TLC-enumerated case file for a family (cached per spec hash: it depends on spec/ only)."""
    cache = C.ensure_dir(os.path.join(C.OUT, "cache"))
    path = os.path.join(cache, "%s.%s.%s.ndjson" % (fam, tier, C.spec_hash()))
    if os.path.exists(path) and os.path.getsize(path) > 0:
        return path
    tmp = path + ".tmp"
    if os.path.exists(tmp):
        os.remove(tmp)
    cfg = "GenCases.cfg" if tier == "quick" else "GenCases_thorough.cfg"
    res = C.tlc("GenCases", cfg, env={"FAMILY": fam, "OUT": tmp}, workers=2, xmx="4g", timeout=1800)
    if not os.path.exists(tmp):
        raise C.ToolError("GenCases wrote nothing for %s:\n%s" % (fam, res.text[-2000:]))
    os.rename(tmp, path)
    C.log("generated family %s (%s): %d cases in %.1fs" % (fam, tier, sum(1 for _ in open(path)), res.wall))
    return path


def gen_families(fams, tier, workdir):
    """Concatenate the case files of several families; returns (path, counts)."""
    import concurrent.futures as cf
    with cf.ThreadPoolExecutor(max_workers=4) as ex:
        paths = list(ex.map(lambda f: gen_family(f, tier), fams))
    out = os.path.join(workdir, "cases.ndjson")
    counts = {}
    with open(out, "w") as o:
        for fam, p in zip(fams, paths):
            n = 0
            for line in open(p):
                if line.strip():
                    o.write(line if line.endswith("\n") else line + "\n")
                    n += 1
            counts[fam] = n
    return out, counts


def run_runner(binp, sub, cases, workdir, opts, shards=12, timeout=1800, label="obs"):
    """Run `runner <sub>` over the cases in shards; a shard that dies is restarted after the case that
    killed it, and the death is recorded as data. Returns (obs_path, crashes)."""
    crashes = []
    outs = []
    pending = []
    for i in range(shards):
        o = os.path.join(workdir, "%s.%d.ndjson" % (label, i))
        if os.path.exists(o):
            os.remove(o)
        outs.append(o)
        pending.append((i, 0))
    deadline = time.time() + timeout
    rounds = 0
    while pending:
        rounds += 1
        if rounds > 50:
            raise C.ToolError("runner keeps dying; giving up")
        procs = []
        for i, skip in pending:
            cmd = [binp, sub, "--cases", cases, "--out", outs[i], "--shard", "%d/%d" % (i, shards),
                   "--skip", str(skip)] + opts
            procs.append((i, skip, subprocess.Popen(cmd, stdout=subprocess.DEVNULL, stderr=subprocess.PIPE)))
        pending = []
        for i, skip, p in procs:
            try:
                _, err = p.communicate(timeout=max(5, deadline - time.time()))
                rc = p.returncode
            except subprocess.TimeoutExpired:
                p.kill()
                _, err = p.communicate()
                rc = "timeout"
            if rc == 0:
                continue
            err = err.decode("utf-8", "replace")
            last = [l for l in err.splitlines() if l.startswith("CASE ")]
            if rc == 2 and not last:
                raise C.ToolError("runner usage error: %s" % err[-500:])
            if not last:
                raise C.ToolError("runner died before its first case (rc=%s): %s" % (rc, err[-500:]))
            case_idx = int(last[-1].split()[1])
            done = sum(1 for _ in open(outs[i])) if os.path.exists(outs[i]) else 0
            crashes.append({"case": case_idx, "rc": str(rc), "stderr": err[-300:]})
            # skip everything already written plus the case that killed the process
            pending.append((i, done + len([c for c in crashes if c.get("shard") == i]) + 1))
            crashes[-1]["shard"] = i
    obs = os.path.join(workdir, label + ".ndjson")
    with open(obs, "w") as o:
        for p in outs:
            if os.path.exists(p):
                shutil.copyfileobj(open(p), o)
                os.remove(p)
    return obs, crashes


def load_obs_index(obs_path):
    """id -> byte offset of the record line (records are large; load lazily)."""
    idx = {}
    with open(obs_path, "rb") as f:
        while True:
            off = f.tell()
            line = f.readline()
            if not line:
                break
            k = line.find(b'"rid":')
            if k >= 0:
                j = k + 6
                e = j
                while line[e:e + 1].isdigit():
                    e += 1
                idx[int(line[j:e])] = off
    return idx


def read_record(obs_path, idx, rid):
    with open(obs_path, "rb") as f:
        f.seek(idx[rid])
        return json.loads(f.readline())


def small_case(rec, h=None):
    """A self-contained, minimal replay case from an observation record."""
    hays = rec.get("hays", [])
    if h is not None and 0 <= h < len(hays):
        hays = [hays[h]]
    return {"fam": rec.get("fam"), "ast": rec.get("ast"), "ng": rec.get("ng"), "names": rec.get("names"),
            "fl": rec.get("fl"), "hays": hays, "pattern": rec.get("pats"), "flags": rec.get("flags")}
