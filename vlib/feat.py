"""C14 (UTF-16 / UCS-2 entry points) and C15 (results do not depend on build features)."""
import json, os, time
from . import common as C
from . import sem as S
from . import semchecks as SC
from . import grammar as GR

PAIRS16 = [("utf16_noopt", "utf16_opt"), ("ucs2_opt", "utf16_opt"), ("ucs2_noopt", "utf16_opt"), ("utf8_opt", "utf16_opt"),
           ("utf8_noopt", "utf16_opt")]


def run16(prop, tier, v, fams, work, judge=True, label="obs16"):
    binp = C.build_runner(variant="f-utf16")
    sub = C.ensure_dir(os.path.join(work, label))
    cases, counts = S.gen_families(fams, tier, sub)
    ncases = sum(counts.values())
    t0 = time.time()
    paths, crashes = S.run_runner(binp, "sem16", cases, sub, [], shards=min(12, max(1, ncases)), label=label)
    obs = paths[label]
    nobs = sum(1 for _ in open(obs))
    C.log("runner sem16 (%s): %d cases in %.1fs (%d crashes)" % (",".join(fams), ncases, time.time() - t0, len(crashes)))
    if nobs + len(crashes) != ncases:
        raise C.ToolError("runner consumed %d of %d cases" % (nobs + len(crashes), ncases))
    R = {"work": sub, "cases": cases, "counts": counts, "ncases": ncases, "obs": obs, "crashes": crashes, "jlines": [], "stats": [],
         "states": 0, "generated": 0}
    if judge:
        t0 = time.time()
        results, n = SC.judge_sharded("JudgeSem", "JudgeSem.cfg", obs, sub, "sem", parts=8 if ncases > 1500 else 4 if ncases > 200 else 1)
        C.log("judge (ESSem): %d records in %.1fs" % (n, time.time() - t0))
        for r in results:
            R["jlines"] += r.jlines
            R["states"] += r.distinct
            R["generated"] += r.generated
        R["stats"] = [j for j in R["jlines"] if j["kind"] == "stat"]
        if len(R["stats"]) != nobs:
            raise C.ToolError("judge reported on %d of %d records" % (len(R["stats"]), nobs))
    else:
        # statistics the classifier needs, computed from the records themselves
        for line in open(obs):
            r = json.loads(line)
            R["stats"].append({"id": r["rid"], "evals": sum(len(h) + 2 for h in r["hays"]), "nontrivial": sum(1 for o in r.get("obs", []) if o and o[0]),
                               "ndiffs": len(r.get("diffs", [])), "nbad": len(r.get("bad", [])), "nfails": len(r.get("fails", []))})
    return R


def check_c14(tier, replay):
    v = C.Verdict("C14", tier)
    work = C.fresh_dir(os.path.join(C.OUT, "work", "C14"))
    fams = ["F14", "F7", "F4", "F3", "F6"] if tier == "quick" else ["F14", "F1", "F3", "F4", "F6", "F7", "F8", "F8m", "F10", "FC2"]
    if replay:
        rp = json.load(open(replay))["replay"]
        if rp.get("pipeline") == "u16robust":
            return robust(v, tier, work, [rp["case"]], finish=True)
        cases = os.path.join(work, "replay.ndjson")
        open(cases, "w").write(json.dumps(rp["case"]) + "\n")
        binp = C.build_runner(variant="f-utf16")
        paths, crashes = S.run_runner(binp, "sem16", cases, work, [], shards=1, label="obs16")
        results, n = SC.judge_sharded("JudgeSem", "JudgeSem.cfg", paths["obs16"], work, "sem", parts=1)
        R = {"work": work, "cases": cases, "counts": {"replay": 1}, "ncases": 1, "obs": paths["obs16"], "crashes": crashes,
             "jlines": [j for r in results for j in r.jlines], "states": 0, "generated": 0}
        R["stats"] = [j for j in R["jlines"] if j["kind"] == "stat"]
        samples = SC.classify("C14", R, v, kinds_sem=("first", "seq", "iter"), pairs=PAIRS16, use_bad=True, use_fails=lambda f: True)
        return v.finish("model_checking", SC.coverage(R, samples, "replay"), [])
    R = run16("C14", tier, v, fams, work)
    samples = SC.classify("C14", R, v, kinds_sem=("first", "seq", "iter"), pairs=PAIRS16, use_bad=True, use_fails=lambda f: True)
    cov = SC.coverage(R, samples, "")
    # legacy i with cased supplementary letters: entry points compared with each other only
    RL = run16("C14", tier, v, ["F14L"], work, judge=False, label="obs16L")
    SC.classify("C14", RL, v, kinds_sem=(), pairs=PAIRS16, use_bad=True, use_fails=lambda f: True)
    cov["families"].update(RL["counts"])
    cov["programs"] += RL["ncases"]
    cov["evaluations"] += sum(s["evals"] for s in RL["stats"])
    # robustness on arbitrary u16 input
    rb = robust(v, tier, work, None)
    cov["u16_robustness_runs"] = rb["runs"]
    cov["evaluations"] += rb["runs"]
    cov["rule"] = (SC_RULE16 % (3 if tier == "quick" else 4))
    return v.finish("model_checking", cov, ["UTF-16 offsets are translated to code point indices through the encoder of Rust std",
                                            "legacy i with cased supplementary letters (family F14L) is compared between entry points only"])


SC_RULE16 = ("TLC enumerates the families (F14: supplementary characters consumed and given back by loops in both directions, captured, "
             "back-referenced, next to \\b, in classes and ranges, inside look-behind; plus the C01 families); a runner built with the "
             "utf16 feature encodes every haystack as UTF-16, runs find_from_utf16 from every character boundary and start len+1, translates "
             "unit offsets to code point indices (a range that splits a surrogate pair or leaves the slice is a violation) and TLC "
             "(JudgeSem.tla) judges the sequences against ESSem; the no_opt program, find_from_ucs2 (on haystacks without supplementary "
             "characters) and the string API of the same build must return the same sequences. Robustness: every u16 string up to length "
             "%d over {a, D800, DBFF, DC00, DFFF, FFFF, LF} through both entry points and both pipelines from every offset, for every "
             "F14 pattern: must return, ranges inside the slice, matches in order. evaluations = (pattern, haystack, start) triples "
             "judged + robustness runs.")


def robust(v, tier, work, cases_list, finish=False):
    binp = C.build_runner(variant="f-utf16")
    sub = C.ensure_dir(os.path.join(work, "robust"))
    if cases_list is None:
        cases, counts = S.gen_families(["F14", "F14L"], tier, sub)
    else:
        cases = os.path.join(sub, "replay.ndjson")
        with open(cases, "w") as f:
            for c in cases_list:
                f.write(json.dumps(c) + "\n")
    t0 = time.time()
    paths, crashes = S.run_runner(binp, "u16robust", cases, sub, ["--maxlen", "3" if tier == "quick" else "4"], shards=14, label="rb")
    runs = n = 0
    for line in open(paths["rb"]):
        r = json.loads(line)
        n += 1
        runs += r["runs"]
        for b in r["bad"][:3]:
            case = GR.read_line(cases, r["rid"])
            v.violation("arbitrary u16 input: /%s/%s on %s from %d (%s%s): %s" % (r["pats"], r["flags"], ["%04X" % u for u in b["s"]], b["start"],
                        "ucs2" if b["ucs2"] else "utf16", ", no_opt" if b["var"] == "noopt" else "", b["what"]),
                        {"pipeline": "u16robust", "case": case, "detail": b})
    for c in crashes:
        case = GR.read_line(cases, c["case"])
        v.violation("arbitrary u16 input killed the process (rc=%s)" % c["rc"], {"pipeline": "u16robust", "case": case})
    C.log("u16 robustness: %d patterns, %d runs in %.1fs" % (n, runs, time.time() - t0))
    if finish:
        return v.finish("exploration", {"evaluations": runs, "distinct_nontrivial": n, "rule": "replay", "samples": []}, [])
    return {"runs": runs, "patterns": n}


# ---------------------------------------------------------------------------------------------
VARIANTS = ["f-index", "f-nounsafe", "f-both", "f-utf16", "f-alloc"]
VARIANT_DESC = {"f-index": "index-positions", "f-nounsafe": "prohibit-unsafe", "f-both": "index-positions + prohibit-unsafe",
                "f-utf16": "utf16", "f-alloc": "no default features: alloc + backend-pikevm (no std)"}


def strip(rec):
    return {k: rec.get(k) for k in ("compile", "obs", "diffs", "bad", "fails", "nvar")}


def check_c15(tier, replay):
    v = C.Verdict("C15", tier)
    work = C.fresh_dir(os.path.join(C.OUT, "work", "C15"))
    fams = ["F1", "F3", "F4", "F6", "F7", "F8", "F8m", "F10", "F13", "F14", "F14L"] if tier == "quick" else ["F1", "F2x", "F3", "F4", "F4b", "F6", "F7", "F8", "F8m", "F10", "F11", "F13", "F14", "F14L"]
    if replay:
        rp = json.load(open(replay))["replay"]
        cases = os.path.join(work, "cases.ndjson")
        open(cases, "w").write(json.dumps(rp["case"]) + "\n")
        counts = {"replay": 1}
    else:
        cases, counts = S.gen_families(fams, tier, work)
    ncases = sum(counts.values())
    sub = "grammar" if replay and json.load(open(replay))["replay"].get("pipeline") == "grammar15" else "sem"
    # reference: the default build; its observations are judged by the model as well
    base = {}
    first_two = []
    t0 = time.time()
    paths, crashes = S.run_runner(C.build_runner(), sub, cases, work, [], shards=min(12, max(1, ncases)), label="def")
    # (kept as compact strings: tens of thousands of parsed records do not fit in memory)
    for line in open(paths["def"]):
        r = json.loads(line)
        base[r["rid"]] = json.dumps(strip(r) if sub == "sem" else {"res": r["res"], "noopt": r["noopt"]}, sort_keys=True)
        if len(first_two) < 2:
            first_two.append(r)
    C.log("default build: %d cases in %.1fs" % (ncases, time.time() - t0))
    if crashes:
        raise C.ToolError("the default build died on %s" % crashes[:2])
    cov = {"states": 0, "transitions": 0, "evaluations": 0, "distinct_nontrivial": 0, "families": dict(counts), "samples": [],
           "configurations": {}, "exhaustive": True}
    if sub == "sem":
        results, n = SC.judge_sharded("JudgeSem", "JudgeSem.cfg", paths["def"], work, "sem", parts=8 if ncases > 1500 else 2)
        kf = {f["id"]: f for f in C.load_known_findings()["findings"]}
        for r in results:
            cov["states"] += r.distinct
            cov["transitions"] += r.generated
            for j in r.jlines:
                if j["kind"] == "stat":
                    cov["distinct_nontrivial"] += j["nontrivial"]
                elif j["kind"] in ("first", "seq", "iter") and not (j.get("dev") and j["dev"][0] in kf):
                    v.note("the default build itself disagrees with the reference on case %d (reported by C01)" % j["id"])
    for var in VARIANTS:
        t0 = time.time()
        binp = C.build_runner(variant=var)
        vp, vcr = S.run_runner(binp, sub, cases, work, [], shards=min(12, max(1, ncases)), label=var)
        nd = 0
        n = 0
        for line in open(vp[var]):
            r = json.loads(line)
            n += 1
            bs = base.get(r["rid"])
            cov["evaluations"] += sum(len(h) + 2 for h in r.get("hays", [])) or 24
            same = json.dumps(strip(r) if sub == "sem" else {"res": r["res"], "noopt": r["noopt"]}, sort_keys=True) == bs
            if not same:
                nd += 1
                b = json.loads(bs) if bs else {}
                if nd <= 8:
                    what = describe(r, b) if sub == "sem" else "compile results %s/%s vs default %s/%s" % (r["res"], r["noopt"], b["res"], b["noopt"])
                    case = GR.read_line(cases, r["rid"])
                    v.violation("feature set [%s]: /%s/%s: %s" % (VARIANT_DESC[var], r.get("pats", GR.show(case.get("p", []))), r.get("flags", ""), what),
                                {"pipeline": "sem15" if sub == "sem" else "grammar15", "case": case, "variant": var})
        for c in vcr:
            case = GR.read_line(cases, c["case"])
            v.violation("feature set [%s]: the process died (rc=%s)" % (VARIANT_DESC[var], c["rc"]), {"pipeline": "sem15", "case": case, "variant": var})
        if n + len(vcr) != ncases:
            raise C.ToolError("%s runner consumed %d of %d cases" % (var, n, ncases))
        cov["configurations"][VARIANT_DESC[var]] = {"cases": n, "different": nd}
        os.remove(vp[var])
        C.log("feature set %s: %d cases, %d different, %.1fs" % (var, n, nd, time.time() - t0))
    if not replay:
        # whether a pattern compiles: the exhaustive grammar families through every feature set
        # (the thorough tier adds token families at the quick length bounds: the thorough bounds make millions of
        # strings per family, each compiled under 24 configurations by six binaries)
        for fam in (["group", "class", "uescape"] if tier == "quick" else [f for f in GR.FAMILIES if f != "chars"]):
            path, meta = GR.gen_family(fam, "quick", work)
            ref, crashes, n0 = GR.run_grammar(path, work, "gdef")
            for var in VARIANTS:
                binp = C.build_runner(variant=var)
                paths, vcr = S.run_runner(binp, "grammar", path, work, ["--limit-ms", "20000"], shards=12, label="g" + var)
                nd = 0
                for line in open(paths["g" + var]):
                    r = json.loads(line)
                    b = ref.get(r["rid"])
                    cov["evaluations"] += 24
                    if b is None or r["res"] != b["res"] or r["noopt"] != b["noopt"]:
                        nd += 1
                        if nd <= 5:
                            case = GR.read_line(path, r["rid"])
                            v.violation("feature set [%s]: /%s/ compiles differently: %s vs default %s" % (VARIANT_DESC[var], GR.show(case["p"]), r["res"], b and b["res"]),
                                        {"pipeline": "grammar15", "case": {"p": case["p"]}, "variant": var})
                for c in vcr:
                    v.violation("feature set [%s]: compile killed the process (rc=%s)" % (VARIANT_DESC[var], c["rc"]),
                                {"pipeline": "grammar15", "case": GR.read_line(path, c["case"]), "variant": var})
                os.remove(paths["g" + var])
                cov["configurations"][VARIANT_DESC[var]]["grammar_" + fam] = meta["strings"]
    some = first_two
    for r in some:
        if "pats" in r:
            cov["samples"].append({"pattern": r["pats"], "flags": r["flags"], "default_obs_first_haystack": r["obs"][0] if r.get("obs") else None})
    cov["rule"] = ("The TLC-enumerated families are replayed by six runner binaries built against regress with the feature sets default, "
                   "index-positions, prohibit-unsafe, both, utf16 (through the string APIs) and --no-default-features --features "
                   "alloc,backend-pikevm; every observation record (compile status of both pipelines, the match sequences of the public "
                   "API from every start offset, the differences of every executor / pipeline / ASCII variant, range checks, panics) must "
                   "be identical to the default build's, whose observations TLC judges against ESSem; the exhaustive token-string "
                   "families of C08 must compile identically (Ok/Err under 12 flag sets x 2 pipelines). evaluations = (pattern, "
                   "haystack, start) triples x feature sets + compile outcomes.")
    return v.finish("exploration", cov, ["the hooks are compiled into every feature set except the no-std one but are not used by these runs"])


def describe(r, b):
    for k in ("compile", "obs", "diffs", "bad", "fails", "nvar"):
        if r.get(k) != b.get(k):
            if k == "obs":
                for hi, (x, y) in enumerate(zip(r["obs"], b["obs"])):
                    if x != y:
                        for s, (p, q) in enumerate(zip(x, y)):
                            if p != q:
                                return "haystack %s from %d: %s vs default %s" % (r["hays"][hi], s, p, q)
            return "%s: %s vs default %s" % (k, json.dumps(r.get(k))[:200], json.dumps(b.get(k))[:200])
    return "?"
