"""Property id -> check function(tier, replay_path) -> exit status."""
import json, os, subprocess
from . import common as C
from . import semchecks as SC

CHECKS = {}


def check(pid):
    def deco(f):
        CHECKS[pid] = f
        return f
    return deco


def load_replay(path):
    d = json.load(open(path))
    return d["replay"]


def sem_check(prop, tier, replay, opts, kinds_sem=(), pairs=(), use_bad=False, use_fails=None, level="model_checking",
              rule="", assumptions=(), want=("sem",), trace_every=0, max_traces=3000, families=None, extra=None, vm_every=1):
    v = C.Verdict(prop, tier)
    rc = None
    if replay:
        rp = load_replay(replay)
        rc = [rp["case"]]
    R = SC.run_sem(prop, tier, v, opts=opts, replay_cases=rc, want=want, trace_every=trace_every,
                   max_traces=max_traces, families=families, vm_every=vm_every)
    samples = SC.classify(prop, R, v, kinds_sem=kinds_sem, pairs=pairs, use_bad=use_bad, use_fails=use_fails)
    cov = SC.coverage(R, samples, rule)
    if R.get("cost_ratio"):
        cov["max_steps_over_reference_cost"] = R["cost_ratio"]
    if extra:
        extra(R, v, cov)
    return v.finish(level, cov, list(assumptions))


SEM_RULE = ("TLC enumerates every pattern of the listed families (spec/Families.tla) and every haystack up to the family's "
            "length bound over its alphabet; the runner executes each (pattern, haystack, start index 0..len+1) on the real "
            "engine; TLC (spec/JudgeSem.tla) recomputes the ECMAScript result with spec/ESSem.tla and compares. "
            "evaluations = (pattern, haystack, start) triples judged; a (pattern, haystack) pair is non-trivial when the "
            "reference finds at least one match in it; pairs are distinct by construction (sets).")


@check("C01")
def c01(tier, replay):
    return sem_check("C01", tier, replay, ["--no-ascii"], kinds_sem=("first", "compile"), rule=SEM_RULE,
                     assumptions=["ESSem.tla is a faithful transcription of ECMA-262 22.2.2 on code point input",
                                  "case relations of the model alphabet (spec/Alphabet.tla) are transcribed from the UCD by hand"])


def trace_notes(R, v, cov):
    """Runs whose dispatch sequence is not a behaviour of the machine specification are a diagnostic
    (the specification may not know a refactored executor); the verdict rests on observables."""
    tm = [j for j in R["jlines"] if j["kind"] == "trace"]
    cov["trace_shape_mismatches"] = len(tm)
    if tm:
        v.note("%d recorded run(s) are not behaviours of the machine specification (first: %s)" % (len(tm), json.dumps(tm[0])[:300]))


@check("C02")
def c02(tier, replay):
    return sem_check("C02", tier, replay, [], kinds_sem=("vm",), pairs=SC.PAIRS["C02"], want=("sem", "vm", "trace"),
                     trace_every=29 if tier == "quick" else 7, max_traces=3000 if tier == "quick" else 40000,
                     extra=trace_notes, vm_every=12 if tier == "quick" else 1,
                     rule=SEM_RULE + " Violations: any (haystack, start) at which the Pike VM's match sequence differs from the "
                     "backtracker's on the same program (UTF-8 and ASCII modes); or BacktrackVM.tla / PikeVM.tla run to completion by TLC "
                     "on the dumped program disagree with each other or with the engine. states/transitions: TLC states of the judges "
                     "plus the lock-step trace validation (spec/MCVM.tla, one state per recorded executor step).",
                     assumptions=["the dumped program (hook verif_program_json) is the program the executors run"])


@check("C03")
def c03(tier, replay):
    return sem_check("C03", tier, replay, [], kinds_sem=("compile",), pairs=SC.PAIRS["C03"], rule=SEM_RULE +
                     " Violations: any (haystack, start) at which the no_opt program's match sequence differs from the optimized one's.")


@check("C09")
def c09(tier, replay):
    return sem_check("C09", tier, replay, ["--no-ascii"], kinds_sem=("iter", "seq"), rule=SEM_RULE +
                     " Violations: the yielded sequence is not the lastIndex unfolding of the engine's own first matches, "
                     "is not strictly increasing/non-overlapping, exceeds len+1 matches, is non-empty for start > len, "
                     "or the iterator yields after None (polled three more times).",
                     use_fails=lambda f: "after returning None" in f["what"] or "more matches" in f["what"])


@check("C13")
def c13(tier, replay):
    return sem_check("C13", tier, replay, [], pairs=SC.PAIRS["C13"], rule=SEM_RULE +
                     " Violations: on an all-ASCII haystack an ASCII entry point's sequence differs from the UTF-8 one's.")


@check("C05")
def c05(tier, replay):
    return sem_check("C05", tier, replay, ["--no-ascii", "--fuel", "400000"], kinds_sem=("cost", "vm", "traceinv"),
                     want=("cost", "vm", "trace"), families=["F2"] if tier == "quick" else ["F2", "F3", "F4", "F1"],
                     trace_every=37 if tier == "quick" else 11, max_traces=2500 if tier == "quick" else 30000,
                     use_fails=lambda f: True, extra=trace_notes, vm_every=10 if tier == "quick" else 1,
                     rule="TLC enumerates the nested-quantifier family F2 (thorough: F1-F4) and all haystacks up to the bound; the runner "
                     "measures, through the step hook, instruction dispatches and the largest backtrack/thread stack of the whole "
                     "iteration on both executors and both pipelines under a fuel limit; TLC (JudgeCost.tla) computes the cost of the "
                     "reference ordered search (ESSem.SearchCost) and requires steps, depth <= 24*cost+64; JudgeVM.tla runs both machine "
                     "specifications to completion on the dumped programs under fuel; MCVM.tla validates sampled runs step by step with "
                     "the stack bound as an invariant. Fuel exhaustion, panics and process deaths are violations attributed to the case. "
                     "Non-trivial: every (pattern, haystack) run counts; distinct by construction.",
                     assumptions=["K=24, K0=64 were calibrated once (largest ratio seen on the repaired tree: 5.5) and frozen"])


@check("C06")
def c06(tier, replay):
    def checked_build(R, v, cov):
        # the same cases through a build with debug assertions and overflow checks: the crate's own
        # debug_assert!s on positions are executable copies of the invariant
        binp = C.build_runner(profile="checked")
        import time as _t
        t0 = _t.time()
        from . import sem as S
        work = R["work"]
        paths, crashes = S.run_runner(binp, "sem", R["cases"], work, ["--no-ascii"], shards=12, label="chk")
        n = 0
        for line in open(paths["chk"]):
            r = json.loads(line)
            n += 1
            for f in r["fails"][:2]:
                h = f.get("h")
                v.violation("debug-assertions build: /%s/%s on %s: %s [%s]" % (r.get("pats"), r.get("flags"),
                            r["hays"][h] if h is not None else None, f["what"], f.get("var")),
                            {"pipeline": "sem", "case": S.small_case(r, h), "kind": "fail-checked", "what": f["what"]})
            for b in r["bad"][:2]:
                v.violation("debug-assertions build: bad range /%s/%s: %s" % (r.get("pats"), r.get("flags"), b["what"]),
                            {"pipeline": "sem", "case": S.small_case(r, b["h"]), "kind": "bad-checked"})
        for c in crashes:
            v.violation("debug-assertions build: process died (rc=%s) on case %d" % (c["rc"], c["case"]),
                        {"pipeline": "sem", "kind": "crash-checked", "case_index": c["case"]})
        cov["checked_build_cases"] = n
        os.remove(paths["chk"])
        C.log("debug-assertions build: %d cases in %.1fs" % (n, _t.time() - t0))
        trace_notes(R, v, cov)

    return sem_check("C06", tier, replay, [], kinds_sem=("event", "traceinv"), use_bad=True, use_fails=lambda f: True,
                     want=("sem", "trace"), families=["F1", "F4", "F6", "F7"] if tier == "quick" else ["F1", "F2", "F3", "F4", "F5", "F6", "F7", "F8"],
                     trace_every=23 if tier == "quick" else 5, max_traces=4000 if tier == "quick" else 50000,
                     extra=checked_build,
                     rule="TLC enumerates the families (haystacks mix 1-, 2-, 3- and 4-byte characters at both ends, the empty haystack "
                     "included); every range of every match of every variant (both executors, both pipelines, ASCII entry points, every "
                     "start index) is checked for 0<=s<=e<=len and char boundaries by slicing; a panic, abort or hang is a violation of "
                     "its case; the default (unchecked, pointer-position) build's recorded executor steps are validated against the "
                     "machine specifications (MCVM.tla) with PosInRange / PosOnBoundary / GroupsWellFormed as invariants on every state, "
                     "and every recorded position is checked directly (EventOk); the same cases are re-run on a build with debug "
                     "assertions and overflow checks.",
                     assumptions=["undefined behaviour that leaves every observable position valid is not visible",
                                  "memchr is trusted"])


def setup():
    try:
        C.build_runner()
        C.build_runner(profile="checked")
        for f in sorted(os.listdir(C.SPEC)):
            if f.endswith(".tla"):
                p = subprocess.run(["tla-sany", f], cwd=C.SPEC, stdout=subprocess.PIPE, stderr=subprocess.STDOUT, text=True)
                if p.returncode != 0 or "rror" in p.stdout:
                    C.log("SANY failed on %s:\n%s" % (f, p.stdout[-1500:]))
                    return 2
        return 0
    except C.ToolError as e:
        C.log("setup failed: %s" % e)
        return 2
