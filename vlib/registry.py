"""Property id -> check function(tier, replay_path) -> exit status."""
import json, os, subprocess
from . import common as C
from . import semchecks as SC

CHECKS = {}


def check(pid):
    def deco(f):
        CHECKS[pid] = f
        return f
    return deco


def load_replay(path):
    d = json.load(open(path))
    return d["replay"]


def sem_check(prop, tier, replay, opts, kinds_sem=(), pairs=(), use_bad=False, use_fails=None, level="model_checking",
              rule="", assumptions=()):
    v = C.Verdict(prop, tier)
    rc = None
    if replay:
        rp = load_replay(replay)
        rc = [rp["case"]]
    R = SC.run_sem(prop, tier, v, opts=opts, replay_cases=rc)
    samples = SC.classify(prop, R, v, kinds_sem=kinds_sem, pairs=pairs, use_bad=use_bad, use_fails=use_fails)
    cov = SC.coverage(R, samples, rule)
    return v.finish(level, cov, list(assumptions))


SEM_RULE = ("TLC enumerates every pattern of the listed families (spec/Families.tla) and every haystack up to the family's "
            "length bound over its alphabet; the runner executes each (pattern, haystack, start index 0..len+1) on the real "
            "engine; TLC (spec/JudgeSem.tla) recomputes the ECMAScript result with spec/ESSem.tla and compares. "
            "evaluations = (pattern, haystack, start) triples judged; a (pattern, haystack) pair is non-trivial when the "
            "reference finds at least one match in it; pairs are distinct by construction (sets).")


@check("C01")
def c01(tier, replay):
    return sem_check("C01", tier, replay, ["--no-ascii"], kinds_sem=("first", "compile"), rule=SEM_RULE,
                     assumptions=["ESSem.tla is a faithful transcription of ECMA-262 22.2.2 on code point input",
                                  "case relations of the model alphabet (spec/Alphabet.tla) are transcribed from the UCD by hand"])


@check("C02")
def c02(tier, replay):
    return sem_check("C02", tier, replay, [], pairs=SC.PAIRS["C02"], rule=SEM_RULE + " Violations: any (haystack, start) at which "
                     "the Pike VM's match sequence differs from the backtracker's on the same program (UTF-8 and ASCII modes).")


@check("C03")
def c03(tier, replay):
    return sem_check("C03", tier, replay, [], kinds_sem=("compile",), pairs=SC.PAIRS["C03"], rule=SEM_RULE +
                     " Violations: any (haystack, start) at which the no_opt program's match sequence differs from the optimized one's.")


@check("C09")
def c09(tier, replay):
    return sem_check("C09", tier, replay, ["--no-ascii"], kinds_sem=("iter", "seq"), rule=SEM_RULE +
                     " Violations: the yielded sequence is not the lastIndex unfolding of the engine's own first matches, "
                     "is not strictly increasing/non-overlapping, exceeds len+1 matches, is non-empty for start > len, "
                     "or the iterator yields after None (polled three more times).",
                     use_fails=lambda f: "after returning None" in f["what"] or "more matches" in f["what"])


@check("C13")
def c13(tier, replay):
    return sem_check("C13", tier, replay, [], pairs=SC.PAIRS["C13"], rule=SEM_RULE +
                     " Violations: on an all-ASCII haystack an ASCII entry point's sequence differs from the UTF-8 one's.")


def setup():
    try:
        C.build_runner()
        for f in sorted(os.listdir(C.SPEC)):
            if f.endswith(".tla"):
                p = subprocess.run(["tla-sany", f], cwd=C.SPEC, stdout=subprocess.PIPE, stderr=subprocess.STDOUT, text=True)
                if p.returncode != 0 or "rror" in p.stdout:
                    C.log("SANY failed on %s:\n%s" % (f, p.stdout[-1500:]))
                    return 2
        return 0
    except C.ToolError as e:
        C.log("setup failed: %s" % e)
        return 2
