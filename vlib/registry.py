"""Property id -> check function(tier, replay_path) -> exit status."""
import json, os, subprocess
from . import common as C
from . import semchecks as SC
from . import simple as SP
from . import grammar as GR
from . import fold as FD
from . import feat as FT
from . import searcher as SR
from . import threads as TH

CHECKS = {}


def check(pid):
    def deco(f):
        CHECKS[pid] = f
        return f
    return deco


def load_replay(path):
    d = json.load(open(path))
    return d["replay"]


def sem_check(prop, tier, replay, opts, kinds_sem=(), pairs=(), use_bad=False, use_fails=None, level="model_checking",
              rule="", assumptions=(), want=("sem",), trace_every=0, max_traces=3000, families=None, extra=None, vm_every=1, vm_env=None):
    v = C.Verdict(prop, tier)
    rc = None
    if replay:
        rp = load_replay(replay)
        rc = [rp["case"]]
    R = SC.run_sem(prop, tier, v, opts=opts, replay_cases=rc, want=want, trace_every=trace_every,
                   max_traces=max_traces, families=families, vm_every=vm_every, vm_env=vm_env)
    samples = SC.classify(prop, R, v, kinds_sem=kinds_sem, pairs=pairs, use_bad=use_bad, use_fails=use_fails)
    cov = SC.coverage(R, samples, rule)
    if R.get("cost_ratio"):
        cov["max_steps_over_reference_cost"] = R["cost_ratio"]
    if extra:
        extra(R, v, cov)
    return v.finish(level, cov, list(assumptions))


SEM_RULE = ("Family R, where listed, is a set of seeded random pattern trees (vlib/randast.py, depth <= 4, all constructs; VERIF_SEED) with "
            "random haystacks, judged by TLC like the enumerated ones. "
            "TLC enumerates every pattern of the listed families (spec/Families.tla) and every haystack up to the family's "
            "length bound over its alphabet; the runner executes each (pattern, haystack, start index 0..len+1) on the real "
            "engine; TLC (spec/JudgeSem.tla) recomputes the ECMAScript result with spec/ESSem.tla and compares. "
            "evaluations = (pattern, haystack, start) triples judged; a (pattern, haystack) pair is non-trivial when the "
            "reference finds at least one match in it; pairs are distinct by construction (sets).")


@check("C01")
def c01(tier, replay):
    return sem_check("C01", tier, replay, ["--no-ascii"], kinds_sem=("first", "compile", "emit", "irparse", "irwf"), want=("sem", "compile", "ir"),
                     rule=SEM_RULE + " In addition the dumped no_opt program of every pattern must equal, instruction by instruction at the "
                     "level of its control-flow skeleton (jump targets, loop bounds / ids / exits, group numbers, per-iteration capture resets, "
                     "look-around extents and continuations, flags of anchors and boundaries; single-character matchers collapsed), the "
                     "program that Compile.tla - the parser lowering and emitter as a TLA+ function - produces from the pattern tree "
                     "(JudgeCompile.tla). The tree (IR) the real parser produced for every pattern (hook verif::ir_trace_json) must mean what the "
                     "pattern means: IRSem.tla evaluates every anchored attempt of the tree on the family's haystacks (quick: the first 20 per "
                     "pattern) and JudgeIR.tla compares with ESSem.tla (kind irparse), and the tree must be well formed (irwf: group ids, "
                     "enclosed-group ranges of loops and look-arounds, one-character loop bodies, backreference targets). The exact reproductions "
                     "of the optimizer run (OptPasses.tla), the start predicates (StartPred.tla) and both programs (Emit.tla) from the recorded "
                     "trees are diagnostics counted in the coverage.",
                     assumptions=["ESSem.tla is a faithful transcription of ECMA-262 22.2.2 on code point input",
                                  "case relations of the model alphabet (spec/Alphabet.tla) are transcribed from the UCD by hand"])


def trace_notes(R, v, cov):
    """Runs whose dispatch sequence is not a behaviour of the machine specification are a diagnostic
    (the specification may not know a refactored executor); the verdict rests on observables."""
    tm = [j for j in R["jlines"] if j["kind"] == "trace"]
    cov["trace_shape_mismatches"] = len(tm)
    if tm:
        v.note("%d recorded run(s) are not behaviours of the machine specification (first: %s)" % (len(tm), json.dumps(tm[0])[:300]))
    sm = [j for j in R["jlines"] if j["kind"] == "search"]
    cov["search_machine_departures"] = len(sm)
    if sm:
        v.note("%d recorded run(s) are not behaviours of the search machine (Search.tla: attempts in increasing order, no offset the start "
               "predicate admits passed over, resumption after a match) (first: %s)" % (len(sm), json.dumps(sm[0])[:300]))


@check("C02")
def c02(tier, replay):
    return sem_check("C02", tier, replay, [], kinds_sem=("vm",), pairs=SC.PAIRS["C02"], want=("sem", "vm", "trace"),
                     trace_every=29 if tier == "quick" else 7, max_traces=3000 if tier == "quick" else 40000,
                     extra=trace_notes, vm_every=12 if tier == "quick" else 1,
                     rule=SEM_RULE + " Violations: any (haystack, start) at which the Pike VM's match sequence differs from the "
                     "backtracker's on the same program (UTF-8 and ASCII modes); or BacktrackVM.tla / PikeVM.tla run to completion by TLC "
                     "on the dumped program disagree with each other or with the engine. states/transitions: TLC states of the judges "
                     "plus the lock-step trace validation (spec/MCVM.tla, one state per recorded executor step).",
                     assumptions=["the dumped program (hook verif_program_json) is the program the executors run"])


@check("C03")
def c03(tier, replay):
    return sem_check("C03", tier, replay, [], kinds_sem=("compile", "irpass", "irwf"), pairs=SC.PAIRS["C03"], want=("sem", "ir", "optmc"),
                     rule=SEM_RULE +
                     " Violations: any (haystack, start) at which the no_opt program's match sequence differs from the optimized one's; "
                     "or, on the trees recorded after parsing and after every optimizer pass that changed the tree (hook verif::ir_trace_json), "
                     "an anchored attempt on which the last tree does not mean what the parsed tree means (IRSem.tla; the first stage that "
                     "differs from its predecessor names the pass), or a stage that is not well formed. Optimizer.tla - the passes as rewrite "
                     "rules, optimize as a state machine - is model-checked by TLC from a sample of the recorded parsed trees (every state keeps "
                     "the meaning, is well formed, the run ends, the last tree is the recorded one), once as the code runs (one round) and once "
                     "as intended (rounds repeat); the recorded run of every pattern is compared with the specification's stage by stage "
                     "(optimizer_trace_differences, a diagnostic).")


def iter_model(tier):
    def run(R, v, cov):
        # Iter.tla: every attempt table on a short haystack, every start, every call history
        src = open(os.path.join(C.SPEC, "MCIter.cfg")).read().replace("MaxLen = 3", "MaxLen = %d" % (3 if tier == "quick" else 4))
        cfg = "MCIter_run_%d.cfg" % os.getpid()
        open(os.path.join(C.SPEC, cfg), "w").write(src)
        try:
            res = C.tlc("MCIter", cfg, workers=4, xmx="4g", timeout=900, workdir=R["work"])
        finally:
            os.remove(os.path.join(C.SPEC, cfg))
        if res.distinct < 1000:
            raise C.ToolError("MCIter explored only %d states" % res.distinct)
        cov["states"] += res.distinct
        cov["transitions"] += res.generated
        cov["iterator_model"] = {"states": res.distinct, "transitions": res.generated}
        C.log("Iter.tla: %d states, %d transitions" % (res.distinct, res.generated))
    return run


@check("C09")
def c09(tier, replay):
    return sem_check("C09", tier, replay, ["--no-ascii"], kinds_sem=("iter", "seq"), rule=SEM_RULE +
                     " Iter.tla states the iterator as a state machine (cursor, lastIndex advance, fused None) and TLC model-checks it for "
                     "every table of anchored-attempt outcomes on a haystack of 3 (thorough: 4) characters, every start and every call "
                     "history: starts strictly increase, no overlap, at most len+1 matches, None is absorbing, the iterator exhausts; "
                     "JudgeSem's UnfoldObserved is the same machine run to completion on the engine's own first matches."
                     " Violations: the yielded sequence is not the lastIndex unfolding of the engine's own first matches, "
                     "is not strictly increasing/non-overlapping, exceeds len+1 matches, is non-empty for start > len, "
                     "or the iterator yields after None (polled three more times).",
                     use_fails=lambda f: "after returning None" in f["what"] or "more matches" in f["what"],
                     extra=None if replay else iter_model(tier))


@check("C13")
def c13(tier, replay):
    return sem_check("C13", tier, replay, [], pairs=SC.PAIRS["C13"], rule=SEM_RULE +
                     " Violations: on an all-ASCII haystack an ASCII entry point's sequence differs from the UTF-8 one's.")


def search_model(tier):
    def run(R, v, cov):
        trace_notes(R, v, cov)
        # Search.tla: every attempt table x every predicate table x both kinds of predicate x every start
        n = 4 if tier == "quick" else 5
        made = []
        try:
            for base in ("MCSearch.cfg", "MCSearchBad.cfg"):
                cfg = base.replace(".cfg", "_run_%d.cfg" % os.getpid())
                open(os.path.join(C.SPEC, cfg), "w").write(open(os.path.join(C.SPEC, base)).read().replace("MaxLen = 3", "MaxLen = %d" % (n if base == "MCSearch.cfg" else 3)))
                made.append(cfg)
            res = C.tlc("MCSearch", made[0], workers=4, xmx="6g", timeout=1800, workdir=R["work"])
            bad = C.tlc("MCSearch", made[1], workers=2, xmx="4g", timeout=900, workdir=R["work"], allow_violation=True)
        finally:
            for cfg in made:
                os.remove(os.path.join(C.SPEC, cfg))
        if res.distinct < 10000:
            raise C.ToolError("MCSearch explored only %d states" % res.distinct)
        if bad.violated_invariant() != "Leftmost":
            raise C.ToolError("MCSearchBad (an unsound predicate allowed) did not violate Leftmost: the search model is vacuous")
        cov["states"] += res.distinct
        cov["transitions"] += res.generated
        cov["search_model"] = {"states": res.distinct, "transitions": res.generated, "max_len": n,
                               "unsound_predicate_counterexample_found": True}
        C.log("Search.tla: %d states, %d transitions; with an unsound predicate TLC exhibits the skipped match" % (res.distinct, res.generated))
    return run


@check("C04")
def c04(tier, replay):
    return sem_check("C04", tier, replay, ["--no-ascii", "--arbitrary"], kinds_sem=("pred",), pairs=SC.PAIRS["C04"],
                     want=("sem", "vm", "trace"), vm_env={"PRED": "1"}, vm_every=2 if tier == "quick" else 1,
                     trace_every=41 if tier == "quick" else 9, max_traces=2500 if tier == "quick" else 30000,
                     extra=trace_notes if replay else search_model(tier),
                     rule=SEM_RULE + " The hook rebuilds each program with StartPredicate::Arbitrary and the match sequences from every start "
                     "offset are compared (both executors); TLC (JudgeVM.tla, PredMismatches) takes the predicate the compiler actually "
                     "derived from the program dump and checks that it admits every character boundary at which the BacktrackVM "
                     "specification's anchored attempt on that program succeeds, including offsets after the first match. "
                     "Search.tla states the leftmost search of one next_match call as a state machine (Seek: the prefix search moves to the "
                     "next admitted offset; Try: one anchored attempt) and TLC model-checks it for every table of attempt outcomes x every "
                     "predicate table x both kinds of predicate x every start on a haystack of 4 (thorough: 5) characters: under a sound "
                     "predicate the search finds the leftmost match, attempts increase, no admitted offset is passed over, the search ends; "
                     "with the soundness assumption dropped TLC must exhibit a skipped match (vacuity guard). MCVM.tla binds it: the attempt "
                     "brackets of sampled recorded runs of both executors must be Try steps of that machine under the dumped predicate "
                     "(search_machine_departures, a diagnostic).",
                     assumptions=["the dumped start predicate is the one the executor uses", "utf16 builds disable the prefilter (not covered here)"])


@check("C05")
def c05(tier, replay):
    # the fuel must cover the permitted bound (24 x reference cost + 64) of the family's heaviest legitimate search:
    # about 240 000 steps in the quick tier, 7 million in the thorough one (exponential patterns on 5 characters)
    fuel = "400000" if tier == "quick" else "20000000"
    return sem_check("C05", tier, replay, ["--no-ascii", "--fuel", fuel], kinds_sem=("cost", "vm", "traceinv"),
                     want=("cost", "vm", "trace", "space"), families=["F2", "F2x", "F9"] if tier == "quick" else ["F2", "F2x", "F3", "F4", "F1", "F1b", "F9"],
                     trace_every=37 if tier == "quick" else 11, max_traces=2500 if tier == "quick" else 30000,
                     # (a cost run that spent its fuel is judged by JudgeCost, which knows the bound)
                     use_fails=lambda f: not (str(f.get("var", "")).startswith("cost_") and "fuel exhausted" in f["what"]),
                     extra=trace_notes, vm_every=10 if tier == "quick" else 1,
                     rule="TLC enumerates the nested-quantifier family F2 (thorough: F1-F4) and all haystacks up to the bound; the runner "
                     "measures, through the step hook, instruction dispatches and the largest backtrack/thread stack of the whole "
                     "iteration on both executors and both pipelines under a fuel limit; TLC (JudgeCost.tla) computes the cost of the "
                     "reference ordered search (ESSem.SearchCost) and requires steps, depth <= 24*cost+64; JudgeVM.tla runs both machine "
                     "specifications to completion on the dumped programs under fuel; MCVMSpace.tla model-checks both machines with their real Next "
                     "relation on a sample of the dumped programs (every haystack, every start boundary): invariants on every state, a "
                     "step bound, and termination as a liveness property with the step counter hidden, so that a repeating configuration "
                     "is a lasso; MCVM.tla validates sampled runs step by step with "
                     "the stack bound as an invariant. Fuel exhaustion, panics and process deaths are violations attributed to the case. "
                     "Non-trivial: every (pattern, haystack) run counts; distinct by construction.",
                     assumptions=["K=24, K0=64 were calibrated once (largest ratio seen on the repaired tree: 5.5) and frozen"])


@check("C06")
def c06(tier, replay):
    def checked_build(R, v, cov):
        # the same cases through a build with debug assertions and overflow checks: the crate's own
        # debug_assert!s on positions are executable copies of the invariant
        binp = C.build_runner(profile="checked")
        import time as _t
        t0 = _t.time()
        from . import sem as S
        work = R["work"]
        paths, crashes = S.run_runner(binp, "sem", R["cases"], work, ["--no-ascii"], shards=12, label="chk")
        n = 0
        for line in open(paths["chk"]):
            r = json.loads(line)
            n += 1
            comp = r.get("compile", {})
            if comp and (comp.get("opt") != "ok" or comp.get("noopt") != "ok") and "panic" in json.dumps(comp):
                v.violation("debug-assertions build: compiling /%s/%s panicked: %s" % (r.get("pats"), r.get("flags"), comp),
                            {"pipeline": "sem", "case": S.small_case(r), "kind": "fail-checked", "what": json.dumps(comp)})
            for f in r.get("fails", [])[:2]:
                h = f.get("h")
                v.violation("debug-assertions build: /%s/%s on %s: %s [%s]" % (r.get("pats"), r.get("flags"),
                            r["hays"][h] if h is not None else None, f["what"], f.get("var")),
                            {"pipeline": "sem", "case": S.small_case(r, h), "kind": "fail-checked", "what": f["what"]})
            for b in r.get("bad", [])[:2]:
                v.violation("debug-assertions build: bad range /%s/%s: %s" % (r.get("pats"), r.get("flags"), b["what"]),
                            {"pipeline": "sem", "case": S.small_case(r, b["h"]), "kind": "bad-checked"})
        for c in crashes:
            v.violation("debug-assertions build: process died (rc=%s) on case %d" % (c["rc"], c["case"]),
                        {"pipeline": "sem", "kind": "crash-checked", "case_index": c["case"]})
        cov["checked_build_cases"] = n
        os.remove(paths["chk"])
        C.log("debug-assertions build: %d cases in %.1fs" % (n, _t.time() - t0))
        trace_notes(R, v, cov)

    return sem_check("C06", tier, replay, [], kinds_sem=("event", "traceinv"), use_bad=True, use_fails=lambda f: True,
                     want=("sem", "trace"), families=["F1", "F4", "F6", "F7", "F8", "F9", "F11", "F14", "F20"] if tier == "quick" else SC.ALLF + ["F14", "F20", "R"],
                     trace_every=23 if tier == "quick" else 5, max_traces=4000 if tier == "quick" else 50000,
                     extra=checked_build,
                     rule="TLC enumerates the families (haystacks mix 1-, 2-, 3- and 4-byte characters at both ends, the empty haystack "
                     "included); every range of every match of every variant (both executors, both pipelines, ASCII entry points, every "
                     "start index) is checked for 0<=s<=e<=len and char boundaries by slicing; a panic, abort or hang is a violation of "
                     "its case; the default (unchecked, pointer-position) build's recorded executor steps are validated against the "
                     "machine specifications (MCVM.tla) with PosInRange / PosOnBoundary / GroupsWellFormed as invariants on every state, "
                     "and every recorded position is checked directly (EventOk); the same cases are re-run on a build with debug "
                     "assertions and overflow checks.",
                     assumptions=["undefined behaviour that leaves every observable position valid is not visible",
                                  "memchr is trusted"])


@check("C16")
def c16(tier, replay):
    return sem_check("C16", tier, replay, ["--no-ascii", "--api"], kinds_sem=("api", "first", "seq"), want=("sem", "api"),
                     level="model_checking", use_fails=lambda f: str(f.get("var", "")).startswith("api_") or f.get("var") == "accessors",
                     rule="TLC enumerates the named/duplicate-named group family F10 (plus the capture families F3, F4) and all "
                     "haystacks up to the bound; for every match of every iteration the runner records captures, group(0..n+1), groups(), "
                     "named_group(name) for every name of the pattern plus an absent one and the empty string, named_groups() and the "
                     "size hints; TLC (JudgeApi.tla) requires each to be the MatchAPI.tla function of the observed range and captures "
                     "and of the names as the specification numbers them; the captures themselves are judged against ESSem. "
                     "The same accessor record is taken from the matches of the Pike executor and of the no_opt pipeline and must equal the "
                     "judged one. "
                     "Non-trivial: every recorded match.",
                     assumptions=["names are compared as code point sequences"])


def cpset_replay(R, v, cov):
    """IntervalSet.tla: TLC explores the whole state space of the CodePointSet machine (every set of
    blocks, every operation) checking the representation invariant and the algebraic laws, and prints
    each transition; the runner replays every transition on the real CodePointSet."""
    import time as _t
    work = R["work"]
    cache = C.ensure_dir(os.path.join(C.OUT, "cache"))
    path = os.path.join(cache, "intervalset.%s.ndjson" % C.spec_hash())
    meta = path + ".meta"
    if not (os.path.exists(path) and os.path.exists(meta)):
        res = C.tlc("MCIntervalSet", "MCIntervalSet.cfg", workers=8, xmx="6g", timeout=900, workdir=work)
        with open(path + ".tmp", "w") as o:
            for j in res.jlines:
                o.write(json.dumps(j) + "\n")
        os.rename(path + ".tmp", path)
        json.dump({"states": res.distinct, "transitions": res.generated, "lines": len(res.jlines)}, open(meta, "w"))
        C.log("IntervalSet.tla: %d states, %d transitions in %.1fs" % (res.distinct, res.generated, res.wall))
    m = json.load(open(meta))
    if m["lines"] + 1 != m["transitions"] or m["states"] < 2:
        raise C.ToolError("IntervalSet exploration incomplete: %s" % m)
    from . import sem as S
    t0 = _t.time()
    paths, crashes = S.run_runner(C.build_runner(), "cpset", path, work, [], shards=8, label="cp")
    n = bad = 0
    for line in open(paths["cp"]):
        r = json.loads(line)
        n += 1
        if not r["ok"]:
            bad += 1
            if bad <= 10:
                t = S_read_line(path, r["rid"])
                v.violation("CodePointSet %s(%s) on %s: expected %s, but: %s" % (t["op"], t["arg"], t["before"], t["after"], r["wrong"]),
                            {"pipeline": "cpset", "case": t, "wrong": r["wrong"]})
    for c in crashes:
        t = S_read_line(path, c["case"])
        v.violation("CodePointSet replay killed the process (rc=%s) on %s" % (c["rc"], t), {"pipeline": "cpset", "case": t})
    os.remove(paths["cp"])
    if n + len(crashes) != m["lines"]:
        raise C.ToolError("cpset replay consumed %d of %d transitions" % (n, m["lines"]))
    cov["states"] += m["states"]
    cov["transitions"] += m["transitions"]
    cov["traces_validated_against_impl"] = cov.get("traces_validated_against_impl", 0) + n
    cov["codepointset_transitions_replayed"] = n
    cov["evaluations"] += n
    C.log("CodePointSet replay: %d transitions, %d wrong, %.1fs" % (n, bad, _t.time() - t0))


def S_read_line(path, k):
    with open(path) as f:
        for i, l in enumerate(f):
            if i == k:
                return json.loads(l)
    return {}


@check("C12")
def c12(tier, replay):
    if replay and load_replay(replay).get("pipeline") == "cpset":
        v = C.Verdict("C12", tier)
        work = C.fresh_dir(os.path.join(C.OUT, "work", "C12"))
        t = load_replay(replay)["case"]
        f = os.path.join(work, "one.ndjson")
        open(f, "w").write(json.dumps(t) + "\n")
        from . import sem as S
        paths, crashes = S.run_runner(C.build_runner(), "cpset", f, work, [], shards=1, label="cp")
        for line in open(paths["cp"]):
            r = json.loads(line)
            if not r["ok"]:
                v.violation("CodePointSet %s: %s" % (t["op"], r["wrong"]), {"pipeline": "cpset", "case": t})
        return v.finish("model_checking", {"evaluations": 1, "distinct_nontrivial": 1, "states": 0, "transitions": 0, "rule": "replay", "samples": [t]}, [])
    return sem_check("C12", tier, replay, [], kinds_sem=("first", "seq", "compile", "irparse", "irpass", "irwf"),
                     pairs=SC.PAIRS["C02"] + SC.PAIRS["C03"], want=("sem", "ir"),
                     rule=SEM_RULE + " The tree (IR) the real parser produced for every class pattern - the interval lists and string sets the "
                     "classes were lowered to - is judged by TLC to mean, under IRSem.tla, what the pattern means under ClassSet.tla / ESSem.tla "
                     "(kind irparse), and every optimizer stage to mean what the parsed tree means (irpass)."
                     " Families FC1 (bracket expressions without v: every sequence of one or two items - characters of "
                     "the s/k fold classes, ranges, class escapes and negations, Unicode properties and negations - negated or not, with "
                     "and without i and u, in three spellings) and FC2 (class sets under v and iv: leaves, all binary unions / "
                     "intersections / subtractions, nested negations, \\q{} strings incl. the empty string, one more operator level); the "
                     "expected matches come from ClassSet.tla (CompileToCharSet with MaybeSimpleCaseFolding and the v-mode complement) "
                     "through ESSem. In addition IntervalSet.tla (the CodePointSet state machine over 8 consecutive blocks of the "
                     "code point space: 256 states x 805 operations add / add_set / remove / intersect / inverted) is explored "
                     "completely by TLC with the representation invariant and algebraic laws, and every transition is replayed on the "
                     "real CodePointSet through the hook wrapper (interval list, inverted_interval_count and membership probes compared).",
                     extra=None if replay else cpset_replay,
                     assumptions=["sets are evaluated on the model universe of spec/ClassSet.tla (closed under both case relations)",
                                  "General_Category Lu/Ll restricted to the universe transcribed from UnicodeData.txt"])


@check("C10")
def c10(tier, replay):
    def sweeps(R, v, cov):
        only = None
        if replay:
            rp = load_replay(replay)
            only = rp.get("cp")
        cov.setdefault("samples", [])
        FD.sweep(v, cov, R["work"], only=only)

    if replay and load_replay(replay).get("pipeline") == "fold":
        v = C.Verdict("C10", tier)
        work = C.fresh_dir(os.path.join(C.OUT, "work", "C10"))
        cov = {"states": 0, "transitions": 0, "evaluations": 0, "distinct_nontrivial": 0, "samples": [], "rule": "replay of one code point"}
        FD.sweep(v, cov, work, only=load_replay(replay).get("cp"))
        return v.finish("exploration", cov, [])
    return sem_check("C10", tier, replay, [], kinds_sem=("first", "seq"), level="exploration",
                     families=["F6", "F13"] if tier == "quick" else ["F6", "F13", "FC1", "FC2"], extra=None if replay else sweeps,
                     rule="(1) All 1 114 112 code points are swept through the engine's folding mechanisms by hook (fold_code_point in both "
                     "modes, expand_code_point in both modes, add_icase_code_points on singletons and on windows around every cased "
                     "block) and the induced partitions are compared by TLC (JudgeFold.tla) with the classes of Fold.tla taken from an "
                     "oracle independent of regress (simple case folding orbits of regex-syntax's Unicode 16 tables; Rust std's Unicode 17 "
                     "to_uppercase for the legacy rule and for code points Unicode 16 does not assign). (2) For every code point with a "
                     "non-trivial class in the oracle or the engine (about 2 900) and each of i / iu / iv, the regexes /^c$/, /^[c]$/, "
                     "/^[^c]$/, /^(.)\\1$/ and /(?<=^\\1(.))$/ are run against every member of the classes and their neighbours and TLC "
                     "requires each to accept exactly the related code points; \\w, \\W, [\\w], [\\W] and \\b are swept over all code points "
                     "in five flag sets. (3) The semantic families F6/F13 (literals, classes, negated classes, backreferences, \\w, \\b "
                     "over the fold classes of the model alphabet in i, iu, iv) are judged against ESSem. Differences that concern only "
                     "code points assigned after Unicode 16, or supplementary code points without u/v, are counted as undecided.",
                     assumptions=["case pairs of characters assigned in Unicode 16 are unchanged in Unicode 17 (stability policy)",
                                  "regex-syntax 0.8.11's case folding table is a faithful copy of CaseFolding.txt 16.0"])


@check("C14")
def c14(tier, replay):
    return FT.check_c14(tier, replay)


@check("C15")
def c15(tier, replay):
    return FT.check_c15(tier, replay)


@check("C20")
def c20(tier, replay):
    return SR.check_c20(tier, replay)


@check("C19")
def c19(tier, replay):
    return TH.check_c19(tier, replay)


@check("C08")
def c08(tier, replay):
    return GR.check_c08(tier, replay)


@check("C07")
def c07(tier, replay):
    return GR.check_c07(tier, replay)


def cps_str(cps):
    return "".join(chr(c) if 32 <= c < 127 else "\\u{%X}" % c for c in cps)


@check("C17")
def c17(tier, replay):
    v = C.Verdict("C17", tier)
    work = C.fresh_dir(os.path.join(C.OUT, "work", "C17"))
    if replay:
        rp = load_replay(replay)
        cases = os.path.join(work, "cases.ndjson")
        with open(cases, "w") as f:
            f.write(json.dumps(rp["case"]) + "\n")
    else:
        cases = SP.gen("GenReplace", tier, work)
    R = SP.pipeline("C17", tier, "replace", cases, "JudgeReplace", "replacestat")
    samples = []
    for j in R["jlines"]:
        if j["kind"] == "replace":
            r = SP.record_of(R["obs"], j["id"])
            what = "%s(/%s/%s, %r, template %r): expected %r, got %r" % (j["fn"], r["pats"], r["flags"], cps_str(r["hays"][j["h"]]),
                                                                     cps_str(j["tpl"]), cps_str(j["exp"]), cps_str(j["got"]))
            case = {k: r[k] for k in ("fam", "ng", "names", "fl")}
            case["ast"] = json.loads(open(R["cases"]).readlines()[j["id"]])["ast"]
            case["hays"] = [r["hays"][j["h"]]]
            case["templates"] = [j["tpl"]] if j["tpl"] else r["templates"][:1]
            v.violation(what, {"pipeline": "replace", "case": case, "fn": j["fn"], "expected": j["exp"], "observed": j["got"]})
    for st in R["stats"][:2]:
        r = SP.record_of(R["obs"], st["id"])
        samples.append({"pattern": r["pats"], "haystack": cps_str(r["hays"][0]), "template": cps_str(r["templates"][min(7, len(r["templates"]) - 1)]),
                        "replace_all": cps_str(r["out"][0]["replace_all"][min(7, len(r["templates"]) - 1)])})
    for c in R["crashes"]:
        v.violation("process died (rc=%s) on case %d" % (c["rc"], c["case"]), {"pipeline": "replace", "case_index": c["case"]})
    cov = {"evaluations": sum(s["outputs"] for s in R["stats"]), "distinct_nontrivial": sum(s["withmatch"] for s in R["stats"]),
           "states": R["states"], "transitions": R["generated"], "exhaustive": True, "samples": samples,
           "rule": "TLC enumerates every template up to length %d over the symbol alphabet {$ 0 1 2 (9) { } n (m) x e-acute} for six regexes "
                   "(no match, optional group, duplicate-named groups, empty matches at multi-byte characters, named groups, names in "
                   "different alternatives) x two haystacks; the runner records replace/replace_all for each and replace_with/"
                   "replace_all_with for the identity and a constant closure; TLC (JudgeReplace.tla) recomputes each output with "
                   "Replace.tla from the engine's own find_iter sequence. evaluations = output strings judged; non-trivial = outputs for "
                   "haystacks with at least one match; distinct by construction." % (4 if tier == "quick" else 5)}
    return v.finish("exploration", cov, ["digit runs are parsed maximally (the code's documented template language); runs longer than 5 digits are not generated",
                                         "the match sequence is the engine's own (its correctness is C01/C09)"])


@check("C18")
def c18(tier, replay):
    v = C.Verdict("C18", tier)
    work = C.fresh_dir(os.path.join(C.OUT, "work", "C18"))
    if replay:
        rp = load_replay(replay)
        cases = os.path.join(work, "cases.ndjson")
        with open(cases, "w") as f:
            f.write(json.dumps(rp["case"]) + "\n")
    else:
        cases = SP.gen("GenEscape", tier, work)
    R = SP.pipeline("C18", tier, "escape", cases, "JudgeEscape", "escapestat", parts=8)
    kf = {f["id"]: f for f in C.load_known_findings()["findings"] if "C18" in f["properties"] or "C10" in f["properties"]}
    for j in R["jlines"]:
        if j["kind"] == "escape":
            if j.get("dev") and j["dev"][0] in kf and "C18" in kf[j["dev"][0]]["properties"]:
                v.known_finding(j["dev"][0], kf[j["dev"][0]]["what"])
                continue
            r = SP.record_of(R["obs"], j["id"])
            what = "%s: s=%r escape(s)=%r flags=%s haystack=%r expected %s got %s" % (
                j["what"], cps_str(r["s"]), cps_str(r["e"]), j["fl"], cps_str(r["hays"][j["h"]]) if r["hays"] else "", j["exp"], j["got"])
            v.violation(what, {"pipeline": "escape", "case": {"fam": "escape", "s": r["s"], "hays": r["hays"]}, "detail": j})
    for c in R["crashes"]:
        v.violation("process died (rc=%s) on case %d" % (c["rc"], c["case"]), {"pipeline": "escape", "case_index": c["case"]})
    samples = []
    for st in R["stats"][:3]:
        r = SP.record_of(R["obs"], st["id"])
        samples.append({"s": cps_str(r["s"]), "escape": cps_str(r["e"]), "haystack": cps_str(r["hays"][0]), "matches_no_flags": r["res"][0]["m"][0] if r["res"] else None})
    cov = {"evaluations": sum(s["evals"] for s in R["stats"]), "distinct_nontrivial": sum(s["nontrivial"] for s in R["stats"]),
           "states": R["states"], "transitions": R["generated"], "exhaustive": True, "samples": samples, "strings": R["ncases"],
           "rule": "TLC enumerates every string up to length 2 over a 39-symbol alphabet (all 14 syntax characters, punctuation special in "
                   "class sets / modifiers / group names, escape letters, digits, U+00E9, U+1F600) and up to length 3 over the syntax "
                   "characters (thorough: length 3 over everything) with seven haystacks built from the string; the runner compiles "
                   "escape(s) under all 12 flag sets and records every match; TLC (JudgeEscape.tla) checks that escape only inserted "
                   "backslashes and that the matches are those of the literal AST under ESSem (case-insensitive under i). "
                   "evaluations = (string, flag set, haystack) triples; non-trivial = strings that escape() had to change."}
    return v.finish("exploration", cov, ["occurrences are defined by ESSem on the literal AST, i.e. leftmost non-overlapping with the lastIndex rule"])


def setup():
    try:
        C.build_runner()
        C.build_runner(profile="checked")
        FD.build_oracle()
        for var in FT.VARIANTS:
            C.build_runner(variant=var)
        C.build_runner(variant="f-pattern", nightly=True)
        for f in sorted(os.listdir(C.SPEC)):
            if f.endswith(".tla"):
                p = subprocess.run(["tla-sany", f], cwd=C.SPEC, stdout=subprocess.PIPE, stderr=subprocess.STDOUT, text=True)
                if p.returncode != 0 or "rror" in p.stdout:
                    C.log("SANY failed on %s:\n%s" % (f, p.stdout[-1500:]))
                    return 2
        return 0
    except C.ToolError as e:
        C.log("setup failed: %s" % e)
        return 2
