"""C10: case-insensitive matching is one relation (Fold.tla), for every code point.

The oracle classes come from sources independent of regress (harness/oracle); the runner sweeps all
1 114 112 code points through the engine's folding mechanisms (hooks) and, at the regex level, every
code point with a non-trivial class; TLC (JudgeFold.tla) judges every record against Fold.tla."""
import json, os, subprocess, time
from . import common as C
from . import semchecks as SC


def build_oracle():
    tdir = os.path.join(C.HARNESS, "target", "default")
    p = subprocess.run(["cargo", "build", "--offline", "--release", "-p", "oracle", "--target-dir", tdir], cwd=C.HARNESS,
                       env=dict(os.environ, CARGO_NET_OFFLINE="true"), stdout=subprocess.PIPE, stderr=subprocess.STDOUT, text=True)
    if p.returncode != 0:
        raise C.ToolError("cannot build the oracle:\n%s" % p.stdout[-3000:])
    return os.path.join(tdir, "release", "oracle")


def sweep(v, cov, work, only=None):
    kf = {f["id"]: f for f in C.load_known_findings()["findings"] if "C10" in f["properties"]}
    oracle = os.path.join(work, "case.json")
    p = subprocess.run([build_oracle(), oracle], stdout=subprocess.PIPE, stderr=subprocess.STDOUT, text=True)
    if p.returncode != 0:
        raise C.ToolError("oracle failed: %s" % p.stdout[-1000:])
    obs = os.path.join(work, "foldobs.ndjson")
    t0 = time.time()
    p = subprocess.run([C.build_runner(), "fold", "--oracle", oracle, "--out", obs], stdout=subprocess.PIPE, stderr=subprocess.PIPE, text=True)
    if p.returncode != 0:
        # the sweep itself died: a panic inside the engine's folding code
        v.violation("the sweep over all code points killed the process (rc=%s): %s" % (p.returncode, p.stderr[-300:]),
                    {"pipeline": "fold", "rc": p.returncode})
        return
    nrec = sum(1 for _ in open(obs))
    C.log("fold sweep: %d records in %.1fs" % (nrec, time.time() - t0))
    t0 = time.time()
    res = C.tlc("JudgeFold", "JudgeFold.cfg", env={"ORACLE": oracle, "OBS": obs}, workers=C.NCPU, xmx="8g", timeout=2400, workdir=work)
    stats = [j for j in res.jlines if j["kind"] == "foldstat"]
    if len(stats) != nrec:
        raise C.ToolError("JudgeFold reported on %d of %d records" % (len(stats), nrec))
    C.log("judge (Fold.tla): %d records in %.1fs" % (nrec, time.time() - t0))
    cov["states"] += res.distinct
    cov["transitions"] += res.generated
    kinds = {}
    for s in stats:
        kinds[s["rk"]] = kinds.get(s["rk"], 0) + 1
    cov["records"] = kinds
    cov["evaluations"] += kinds.get("rx", 0) * 5 + 2 * 1114112 * 2 + 1114112 + kinds.get("closure", 0) + 5 * 1114112
    cov["distinct_nontrivial"] += kinds.get("rx", 0)
    und = 0
    shown = 0
    for j in res.jlines:
        if j["kind"] != "fold":
            continue
        if only is not None and only not in j.get("cls", []):
            continue
        if j["why"] == "undecided":
            und += 1
            continue
        if j["why"] and j["why"] in kf:
            v.known_finding(j["why"], kf[j["why"]]["what"])
            continue
        shown += 1
        if shown <= 60:
            v.violation("%s: code points %s: expected %s, engine %s" % (j["what"], ["U+%04X" % c for c in j["cls"][:8]],
                        ["U+%04X" % c for c in j.get("exp", [])], ["U+%04X" % c for c in j.get("got", [])] if "got" in j else
                        ("class present only in the engine" if j.get("engine") else "class missing from the engine")),
                        {"pipeline": "fold", "detail": j, "cp": j["cls"][0] if j["cls"] else None})
    cov["undecided"] = und
    o = json.load(open(oracle))
    cov["oracle"] = {"scf_classes": len(o["scf_classes"]), "legacy_classes": len(o["legacy_classes"]), "new_in_17": len(o["new_in_17"]),
                     "sources": o["sources"]}
    cov["samples"].append({"oracle_scf_class": o["scf_classes"][10], "oracle_legacy_class": o["legacy_classes"][10]})
