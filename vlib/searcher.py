"""C20: the pattern-trait Searcher honours the std contract (Searcher.tla)."""
import json, os, time
from . import common as C
from . import sem as S
from . import grammar as GR


def check_c20(tier, replay):
    v = C.Verdict("C20", tier)
    work = C.fresh_dir(os.path.join(C.OUT, "work", "C20"))
    cov = {"states": 0, "transitions": 0, "evaluations": 0, "distinct_nontrivial": 0, "samples": [], "families": {}}
    # 1. the contract machine, all match sequences x all interleavings
    if not replay:
        cfg = os.path.join(work, "MCSearcher_run.cfg")
        src = open(os.path.join(C.SPEC, "MCSearcher.cfg")).read().replace("MaxLen = 3", "MaxLen = %d" % (3 if tier == "quick" else 4))
        open(os.path.join(C.SPEC, "MCSearcher_run.cfg"), "w").write(src)
        try:
            res = C.tlc("MCSearcher", "MCSearcher_run.cfg", workers=8, xmx="6g", timeout=1800, workdir=work)
        finally:
            os.remove(os.path.join(C.SPEC, "MCSearcher_run.cfg"))
        if res.distinct < 100:
            raise C.ToolError("MCSearcher explored only %d states" % res.distinct)
        cov["states"] += res.distinct
        cov["transitions"] += res.generated
        cov["contract_model"] = {"states": res.distinct, "transitions": res.generated, "max_len": 3 if tier == "quick" else 4}
        C.log("Searcher.tla: %d states, %d transitions (all match sequences, all interleavings)" % (res.distinct, res.generated))
    # 2. traces of the real searcher
    binp = C.build_runner(variant="f-pattern", nightly=True)
    if replay:
        rp = json.load(open(replay))["replay"]
        cases = os.path.join(work, "cases.ndjson")
        open(cases, "w").write(json.dumps(rp["case"]) + "\n")
        counts = {"replay": 1}
    else:
        fams = ["F20", "F5"] if tier == "quick" else ["F20", "F5", "F4"]
        # (the thorough tier adds families, not longer haystacks: every recorded step is validated by TLC, about
        # a million events a minute, and the families' thorough haystack sets would make 600 million events)
        cases, counts = S.gen_families(fams, "quick", work)
    ncases = sum(counts.values())
    shards = min(8, max(1, ncases))
    trace_files = []
    t0 = time.time()
    # one trace file per shard (the runner appends)
    paths, crashes = run_traced(binp, cases, work, shards, trace_files)
    nruns = nevents = 0
    for line in open(paths):
        r = json.loads(line)
        nruns += r["runs"]
        nevents += r["events"]
        for f in r["fails"][:2]:
            case = GR.read_line(cases, r["rid"])
            v.violation("the searcher panicked: /%s/%s haystack %s: %s" % (r["pats"], r["flags"], case["hays"][f["h"]], f["what"]),
                        {"pipeline": "searcher", "case": dict(case, hays=[case["hays"][f["h"]]])})
    for c in crashes:
        case = GR.read_line(cases, c["case"])
        v.violation("driving the searcher killed the process (rc=%s)" % c["rc"], {"pipeline": "searcher", "case": case})
    C.log("searcher runs: %d cases, %d runs, %d events in %.1fs" % (ncases, nruns, nevents, time.time() - t0))
    trace = os.path.join(work, "trace.ndjson")
    index = {}
    with open(trace, "w") as o:
        for tf in trace_files:
            if os.path.exists(tf):
                for line in open(tf):
                    if line.startswith('{"') and '"ev":"reset"' in line[:400] or '"reset"' in line[:40]:
                        pass
                    o.write(line)
                os.remove(tf)
    nlines = 0
    for line in open(trace):
        nlines += 1
        if '"reset"' in line:
            e = json.loads(line)
            if e.get("ev") == "reset":
                index[e["run"]] = (e["rid"], e["h"], e["sched"], e["matches"])
    t0 = time.time()
    res = C.tlc("TraceSearcher", "TraceSearcher.cfg", env={"TRACE": trace}, workers=1, xmx="8g", timeout=3600, workdir=work, deque=True,
                allow_violation=True)
    inv = res.violated_invariant()
    done = [j for j in res.jlines if j["kind"] == "searcherdone"]
    if inv and inv != "Finished":
        v.violation("contract invariant %s violated on a validated trace" % inv, {"pipeline": "searcher", "invariant": inv, "tlc": res.text[-2000:]})
    elif not done or done[0]["events"] != nlines:
        raise C.ToolError("trace validation consumed %s of %d events:\n%s" % (done, nlines, res.text[-1500:]))
    bad_runs = 0
    for j in res.jlines:
        if j["kind"] != "searcher":
            continue
        bad_runs += 1
        if bad_runs > 25:
            continue
        rid, h, sched, ms = index.get(j["run"], (None, None, None, None))
        case = GR.read_line(cases, rid) if rid is not None else {}
        hay = case.get("hays", [[]])[h] if case else None
        ev = j["event"]
        v.violation("%s: case %s haystack %s (schedule %s, matches %s): got %s, the contract requires %s" % (
            j["why"], rid, hay, sched, ms, {k: ev.get(k) for k in ("ev", "k", "a", "b", "find", "mi", "split") if k in ev},
            j["expected"] if j["why"] != "str method" else {k: j["expected"][k] for k in ("find", "mi", "split", "rsplit", "ts", "te")}),
            {"pipeline": "searcher", "case": dict(case, hays=[hay]) if case else None, "detail": j})
    cov["states"] += res.distinct
    cov["transitions"] += res.generated
    cov["traces_validated_against_impl"] = nruns - bad_runs
    cov["trace_events"] = nlines
    cov["evaluations"] += nevents
    cov["distinct_nontrivial"] += nruns
    cov["families"] = counts
    cov["samples"].append({"first_run": index.get(min(index)) if index else None})
    C.log("trace validation: %d events, %d runs, %d rejected, %.1fs" % (nlines, nruns, bad_runs, time.time() - t0))
    cov["rule"] = ("(1) Searcher.tla, the std Searcher/ReverseSearcher contract as a state machine, is model-checked by TLC for every match "
                   "sequence find_iter can yield on a haystack of 3 (thorough: 4) bytes under every interleaving of next and next_back: steps "
                   "in range, adjacent, Done only when everything is covered, Done absorbing, both directions terminate. (2) A nightly "
                   "runner (regress feature pattern) drives the real RegexSearcher, for every pattern of the families (F20: empty matches at "
                   "every position, at multi-byte characters and both ends, adjacent matches) and every haystack up to the bound, through five "
                   "call schedules (forward, reverse, alternating, two seeded random interleavings), records every step, and records what "
                   "str::find / rfind / contains / match_indices / rmatch_indices / split / rsplit / starts_with / ends_with / "
                   "trim_start_matches / trim_end_matches return; TraceSearcher.tla validates the concatenated trace event by event "
                   "against the specification's own actions (each step must be the step NextFwd / NextBack takes, on character "
                   "boundaries), with the contract invariants evaluated in every state. The match sequence given to the specification is "
                   "the engine's own find_iter (judged by C01/C09). Non-trivial: every run.")
    return v.finish("model_checking", cov, ["the nightly toolchain of the sandbox builds the pattern feature",
                                            "the searcher is not a DoubleEndedSearcher: the two directions are independent streams"])


def run_traced(binp, cases, work, shards, trace_files):
    """Like S.run_runner, but every shard also appends to its own trace file."""
    import subprocess
    outs = []
    procs = []
    for i in range(shards):
        o = os.path.join(work, "srch.%d.ndjson" % i)
        t = os.path.join(work, "trace.%d.ndjson" % i)
        for f in (o, t):
            if os.path.exists(f):
                os.remove(f)
        outs.append(o)
        trace_files.append(t)
        procs.append(subprocess.Popen([binp, "searcher", "--cases", cases, "--shard", "%d/%d" % (i, shards), "--out", o, "--trace-out", t,
                                       "--seed", str(C.seed())], stdout=subprocess.DEVNULL, stderr=subprocess.PIPE, preexec_fn=S.limit_memory))
    crashes = []
    for i, p in enumerate(procs):
        try:
            _, err = p.communicate(timeout=1500)
            rc = p.returncode
        except subprocess.TimeoutExpired:
            p.kill()
            _, err = p.communicate()
            rc = "timeout"
        if rc != 0:
            last = [l for l in err.decode("utf-8", "replace").splitlines() if l.startswith("CASE ")]
            if not last:
                raise C.ToolError("searcher runner died before its first case: %s" % err[-300:])
            crashes.append({"case": int(last[-1].split()[1]), "rc": str(rc)})
    merged = os.path.join(work, "srch.ndjson")
    with open(merged, "w") as o:
        for f in outs:
            if os.path.exists(f):
                o.write(open(f).read())
                os.remove(f)
    return merged, crashes
