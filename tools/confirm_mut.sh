#!/bin/sh
# usage: confirm_mut.sh <dir with patch.diff demo.rs> <name> ["--features X"]
# In a scratch worktree of /repo: the patch applies, the pinned suite passes with it, the demo fails with it
# and passes without it. Prints one CONFIRM line; removes the worktree.
d=$1; name=$2
W=/tmp/mw/c_$name
rm -rf "$W"; mkdir -p /tmp/mw
git -C /repo worktree add -q --detach "$W" HEAD || exit 2
cd "$W" || exit 2
feat="$3"
tool=""; case "$feat" in *pattern*) tool="+nightly";; esac
if ! git apply "$d/patch.diff" 2>/dev/null; then echo "CONFIRM $name applies=no"; cd /; git -C /repo worktree remove --force "$W"; exit 0; fi
suite=$(cargo test --workspace --no-fail-fast --offline -j 6 2>&1 | grep -E "^test result" | grep -vc "ok\.")
cp "$d/demo.rs" tests/zz_demo.rs
with=$(cargo $tool test --offline -j 6 $feat --test zz_demo 2>&1 | grep -E "^test result" | tail -1)
git checkout -q -- src 2>/dev/null; git status --short | grep -v zz_demo | grep -q . && git checkout -q -- .
without=$(cargo $tool test --offline -j 6 $feat --test zz_demo 2>&1 | grep -E "^test result" | tail -1)
echo "CONFIRM $name applies=yes suite_failing_groups=$suite feat='$feat' | with: $with | without: $without"
cd /; git -C /repo worktree remove --force "$W"
