#!/bin/sh
# run inside a vp snapshot: point the harness at the repo snapshot, then run thorough tiers
sed -i "s#path = \"/repo\"#path = \"$VP_RUN_REPO\"#" harness/runner/Cargo.toml harness/autotraits/Cargo.toml
grep -n "path =" harness/runner/Cargo.toml harness/autotraits/Cargo.toml
for p in "$@"; do
  t0=$(date +%s)
  ./check $p --tier thorough > thorough_$p.out 2> thorough_$p.err; rc=$?
  echo "THOROUGH $p rc=$rc secs=$(( $(date +%s) - t0 )) violations=$(grep -c '^VIOLATION' thorough_$p.out) known=$(grep -c '^KNOWN' thorough_$p.out)"
  grep -E '^  ' thorough_$p.err | head -3
  [ $rc = 2 ] && tail -5 thorough_$p.err
done
