#!/usr/bin/env python3
"""Move confirmed seeded changes from seeded/incoming/<prop>/<m>/ to seeded/<prop>_<m>/ with a meta.json.
Inputs: /tmp/confirm_all.log (CONFIRM lines of tools/confirm_mut.sh) and /tmp/run_muts_all.log (RESULT lines of tools/run_muts.sh)."""
import json, os, re, shutil, sys
ROOT = os.path.dirname(os.path.dirname(os.path.abspath(__file__)))
conf = {}
for line in open(sys.argv[1]):
    m = re.match(r"CONFIRM (\w+)_(m\d) applies=(\w+)(.*)", line.strip())
    if m:
        conf[(m.group(1), m.group(2))] = line.strip()
res = {}
for line in open(sys.argv[2]):
    m = re.match(r"RESULT \S*/(C\d\d)/(m\d) (C\d\d) rc=(\d) violations=(\d+) secs=(\d+) \|(.*)", line.strip())
    if m:
        res.setdefault((m.group(1), m.group(2)), []).append({"check": m.group(3), "exit": int(m.group(4)), "violations": int(m.group(5)),
                                                             "seconds": int(m.group(6)), "first_violation": m.group(7).strip()[:300]})
for (prop, mm), cl in sorted(conf.items()):
    src = os.path.join(ROOT, "seeded", "incoming", prop, mm)
    if "applies=yes" not in cl or "with: test result: FAILED" not in cl or "without: test result: ok" not in cl or "suite_failing_groups=0" not in cl:
        print("not confirmed:", prop, mm, cl[:120])
        continue
    dst = os.path.join(ROOT, "seeded", "%s_%s" % (prop, mm))
    os.makedirs(dst, exist_ok=True)
    for f in os.listdir(src):
        shutil.copy(os.path.join(src, f), os.path.join(dst, f))
    txt = ""
    for name in ("meta.txt",):
        p = os.path.join(src, name)
        if os.path.exists(p):
            txt = open(p).read()
    needs = ""
    m = re.search(r"(Needed to manifest|What it needs|What triggers it|needs to manifest|Needs)[^\n]*\n?(.*?)(\n\s*\n|\nCommands|\nExamples|\Z)", txt, re.S | re.I)
    if m:
        needs = (m.group(0)).strip()[:1500]
    feat = re.search(r"feat='([^']*)'", cl)
    meta = {
        "property": prop,
        "id": "%s_%s" % (prop, mm),
        "breaks": txt.strip().split("\n")[0][:400],
        "needs_to_manifest": needs or "see description",
        "description": txt.strip()[:6000],
        "confirmed": {
            "how": "tools/confirm_mut.sh in a scratch worktree of /repo at HEAD: git apply; cargo test --workspace --no-fail-fast --offline (all green with the change); "
                   "demo.rs copied to tests/zz_demo.rs and run with cargo test --offline %s --test zz_demo (fails with the change, passes after git checkout)" % (feat.group(1) if feat else ""),
            "log": cl,
        },
        "checks_run": res.get((prop, mm), []),
        "caught_by": sorted({r["check"] for r in res.get((prop, mm), []) if r["exit"] == 1}),
    }
    json.dump(meta, open(os.path.join(dst, "meta.json"), "w"), indent=1)
    print("kept", prop, mm, "caught by", meta["caught_by"])
