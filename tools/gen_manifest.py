#!/usr/bin/env python3
"""Regenerate MANIFEST.json from the table below (kept in one place so it stays valid)."""
import json, os, subprocess
ROOT = os.path.dirname(os.path.dirname(os.path.abspath(__file__)))
props = [json.loads(l) for l in open(os.path.join(ROOT, "properties.jsonl"))]

HOOKS = [l.split()[0] for l in subprocess.run(["git", "-C", "/repo", "log", "--format=%h %s"], stdout=subprocess.PIPE, text=True).stdout.splitlines() if l.split(" ", 1)[1].startswith("verif hooks")]
MC = "model_checking"
EX = "exploration"
CHECKS = {
 "C01": (MC, "TLC enumerates pattern families exhaustively and judges every (pattern, haystack, start) observation of the real engine against the TLA+ transcription of ECMA-262's ordered search (ESSem.tla); the tree (IR) the real parser produced for every pattern (hook ir_trace_json) is judged by TLC to mean, under IRSem.tla, what the pattern means under ESSem.tla, and to be well formed; the dumped no_opt program is compared with the emitter specifications (Compile.tla from the pattern, Emit.tla from the tree). Exhaustive within the families' bounds (depth <= 3, haystack <= 3-5), not beyond.",
         "TLC-judged exhaustive replay against TLA+ reference semantics (ESSem) + TLC-judged recorded IR trees against IRSem + emitter specifications compared with dumped programs", "5 C01",
         "ESSem.tla is a hand transcription of ECMA-262 22.2.2; Alphabet.tla case data transcribed from the UCD; known deviations D8/D9/D10 are modelled as named deviations and reported as KNOWN-FINDING only when the observation equals the spec with exactly that deviation"),
 "C02": (MC, "Both executors are specified as TLA+ state machines (BacktrackVM.tla, PikeVM.tla); TLC runs them on the programs dumped from the real compiler and checks BT = Pike = engine for every haystack, validates recorded executor runs step by step against the machines (MCVM.tla, real Next relation, invariants on every state), and the runner compares the two real executors on every enumerated case in UTF-8 and ASCII modes.",
         "TLC model checking of dumped bytecode on two TLA+ machine specs + lock-step trace validation + exhaustive differential replay", "5 C02",
         "the program dump hook shows the program the executors run; trace-shape mismatches are diagnostics, not verdicts"),
 "C03": (MC, "Every enumerated pattern is compiled with and without the optimizer; match sequences from every start offset are compared with each other and with the TLA+ reference (so a defect common to both pipelines is not masked). The optimizer is specified in TLA+ (OptPasses.tla: the seven passes as rewrite rules; Optimizer.tla: optimize as a state machine) and bound through the IR trace hook: TLC judges that every recorded stage of every pattern means what the parsed tree means (IRSem.tla) and is well formed, compares the recorded run with the specification's stage by stage, and model-checks Optimizer.tla from a sample of the recorded parsed trees (meaning preserved in every state, termination, last tree = the recorded one).",
         "TLC-judged exhaustive replay of optimizing vs no_opt pipelines against ESSem + trace validation of recorded optimizer stages against the TLA+ optimizer specification and IR semantics + TLC model checking of Optimizer.tla", "5 C03",
         "families are chosen per optimizer pass; bounded haystack length"),
 "C05": (MC, "Step and stack measurements of the real executors (hooks) on all nested-quantifier patterns are bounded by TLC against the cost of the reference search (ESSem.SearchCost); both machine specs are run to completion on the dumped programs under fuel; sampled runs are validated step by step with the stack bound as an invariant. Non-termination shows as fuel exhaustion, attributed to its case.",
         "TLC-computed reference search cost bounds hook-measured steps/stack + TLC machine runs on dumped bytecode + trace validation", "5 C05",
         "K=24, K0=64 frozen constants bound growth relative to the reference search; fuel 400000 steps"),
 "C06": (MC, "The invariant whose violation is the only way the unchecked accessors can misbehave (every position inside [0,len] and on a boundary when a character is decoded) is checked by TLC on every state of validated runs of the default unchecked build and directly on every recorded event; every reported range of every variant is sliced; the cases are re-run with debug assertions and overflow checks.",
         "lock-step trace validation against TLA+ machine specs with position invariants + exhaustive range checks + debug-assertion replay", "5 C06",
         "undefined behaviour that leaves all observable positions valid is invisible; memchr trusted"),
 "C09": (MC, "The iteration contract is stated in TLA+ on the observations alone (UnfoldObserved/WellFormedSeq in JudgeSem.tla: unfolding of the engine's own first matches with the lastIndex advance rule, strict progress, no overlap, at most len+1 matches, nothing for start > len, fused) and against ESSem's AllMatches, for every start index of every enumerated case.",
         "TLC-judged exhaustive replay against the TLA+ iteration contract", "5 C09", "bounded haystack length"),
 "C13": (MC, "On every all-ASCII haystack of every enumerated case the four ASCII variants (both executors, both pipelines) are compared with their UTF-8 counterparts from every start offset; the UTF-8 side is itself judged by TLC against ESSem.",
         "TLC-judged exhaustive replay, ASCII vs UTF-8 entry points", "5 C13", "patterns mention non-ASCII characters and fold partners; haystacks are ASCII by the property's premise"),
 "C04": (MC, "The start predicate the compiler actually derived is taken from the program dump and TLC checks that it admits every character boundary at which the BacktrackVM specification's anchored attempt on that program succeeds (all offsets, also after the first match); the hook rebuilds each program with StartPredicate::Arbitrary and the full match sequences from every start offset are compared on both executors. Search.tla specifies the leftmost search with a prefilter as a state machine; TLC model-checks it for every attempt table x predicate table (sound predicate => leftmost match, nothing admitted passed over; unsound predicate => counterexample) and MCVM.tla validates the attempt brackets of recorded runs against it.",
         "TLC model checking of the dumped start predicate against the BacktrackVM spec + TLC model checking of Search.tla + trace validation of recorded searches + differential replay with the predicate removed", "5 C04",
         "the dumped predicate is the one the executor uses; utf16 builds (prefilter disabled) are covered by C15"),
 "C16": (MC, "MatchAPI.tla defines every accessor as a function of (range, captures, names); TLC judges the recorded accessor values of every match of the enumerated named / duplicate-named / capture families against it, with names numbered by the specification.",
         "TLC-judged exhaustive replay against the MatchAPI TLA+ specification", "5 C16", "captures themselves are judged by C01"),
 "C17": (EX, "Replace.tla specifies the template language and splice-and-expand; TLC enumerates all templates up to length 4/5 over the scanner's symbol alphabet for six regexes and judges all four replace functions.",
         "TLC-enumerated templates, TLC-judged outputs against the Replace TLA+ specification", "5 C17", "the match sequence is the engine's own (C01/C09); digit runs are parsed maximally"),
 "C18": (EX, "TLC enumerates all short strings over an alphabet with every syntax character; escape(s) must only insert backslashes, compile under all 12 flag sets, and match exactly like the literal AST under ESSem.",
         "TLC-enumerated strings, TLC-judged against Escape.tla / ESSem", "5 C18", "strings up to length 2-3"),
 "C08": (EX, "ESGrammar.tla is a recogniser for ECMAScript Pattern in the legacy (Annex B), u and v grammars with the early errors; TLC enumerates as a state space every string of at most n tokens over seven token alphabets and the runner's Ok/Err under 12 flag sets x 2 pipelines must equal the verdict in both directions; seeded single-edit neighbours of rendered family patterns are judged by TLC.",
         "TLC-enumerated token strings (state space) judged by the ESGrammar TLA+ recogniser + TLC-judged near-valid edits", "5 C08",
         "corners the transcription does not decide are answered 'unk' and never alarmed; D14 (\\u{...} without u/v) is a known finding required by the pinned suite"),
 "C12": (MC, "ClassSet.tla gives the denotation of bracket expressions and class sets (CompileToCharSet with MaybeSimpleCaseFolding and the u / v complement rules, strings longest first) and ESSem matches with it; TLC enumerates the class families FC1/FC2 exhaustively and judges every observation; IntervalSet.tla, the CodePointSet state machine, is explored completely by TLC (representation invariant, algebraic laws) and every one of its transitions is replayed on the real CodePointSet.",
         "TLC-judged exhaustive replay against the ClassSet/ESSem TLA+ semantics + complete TLC exploration of the IntervalSet machine replayed transition by transition", "5 C12",
         "sets are evaluated on the model universe; D8 (legacy i closes classes under simple case folding) is a known finding"),
 "C10": (EX, "Fold.tla states the single canonical relation by its classes; an oracle independent of regress supplies the classes for all code points; the runner sweeps all 1 114 112 code points through every folding mechanism (hooks) and runs literal / class / negated class / backreference regexes for every cased code point in i, iu, iv; TLC (JudgeFold.tla) judges every record; the model-alphabet families are judged against ESSem.",
         "exhaustive sweep over all code points judged by TLC against the Fold TLA+ relation with an external oracle", "5 C10",
         "oracle = regex-syntax Unicode 16 simple case folding + Rust std Unicode 17 to_uppercase; differences confined to code points assigned after Unicode 16 or to supplementary code points without u/v are reported as undecided"),
 "C14": (MC, "A runner built with the utf16 feature encodes every haystack of the TLC-enumerated families as UTF-16, searches it with find_from_utf16 from every boundary, translates offsets to code point indices and TLC judges the sequences against ESSem; the no_opt program, find_from_ucs2 (BMP haystacks) and the string API of the same build must agree; every u16 string up to length 3/4 over an alphabet with lone surrogates goes through both entry points from every offset for every pattern of the UTF-16 family.",
         "TLC-judged exhaustive replay through the UTF-16 entry points against ESSem + exhaustive short u16 strings for robustness", "5 C14",
         "legacy i with cased supplementary letters is compared between entry points only"),
 "C15": (EX, "The TLC-enumerated families are replayed by six runner binaries (default, index-positions, prohibit-unsafe, both, utf16, no-std alloc) and every observation record must equal the default build's, which TLC judges against ESSem; the exhaustive token-string families of C08 must compile identically.",
         "exhaustive replay of TLC-enumerated families across six feature builds, default judged by TLC", "5 C15",
         "six builds; the pattern feature (nightly) is covered by C20"),
 "C19": (MC, "SharedRegex.tla (threads share an immutable program; scratch state belongs to the search) is model-checked by TLC for several thread/query configurations with a vacuity guard; TLC prints every complete interleaving and the runner imposes each on real threads sharing one cold Regex through the gate hook, comparing every result and the program dump with sequential use; plus an ungated 8-thread stress on cold regexes, all query orders on one Regex, and a crate that compiles iff Regex, Match, Error are Send + Sync.",
         "TLC model checking of the SharedRegex spec + TLC-enumerated interleavings replayed on real threads via the gate hook + auto-trait compile check", "5 C19",
         "interleavings are imposed at instruction-dispatch granularity; a race inside one dispatch is exercised only by the ungated stress; a race that changes no result is invisible"),
 "C20": (MC, "Searcher.tla, the std Searcher / ReverseSearcher contract as a state machine, is model-checked for every match sequence on short haystacks under every interleaving of next / next_back; a nightly runner records every step of the real RegexSearcher under five call schedules and the results of eleven str methods, and TraceSearcher.tla validates the trace event by event against the specification's own actions with the contract invariants evaluated in every state.",
         "TLC model checking of the Searcher contract + trace validation of the real searcher against the same actions", "5 C20",
         "the match sequence given to the specification is the engine's own find_iter (C01/C09 judge it); needs the sandbox's nightly toolchain"),
 "C07": (EX, "Every compile of the C08 exploration must return (panics are caught per case, process deaths and watchdog expiries are attributed to their case), and Limits.tla states the resource contract for adversarially large patterns (nesting to 10^5-10^6, 10^6 groups/loops/alternatives/characters, counts to 10^23, nested exact counts), which the runner expands and compiles in child processes.",
         "TLC-enumerated short strings + TLA+ resource-limit families replayed under a watchdog in child processes", "5 C07",
         "totality over arbitrarily long inputs is sampled at the listed sizes, not exhausted; watchdog 20 s / 60 s per compile call"),
}

NA = {"C11": "The property is the equality of about 400 static interval tables with the Unicode 17 character database. A TLA+ specification cannot contain that database, the sandbox holds no copy of UCD 17 (only Unicode 16 tables inside regex-syntax and a few Unicode 17 predicates in Rust std), and General_Category / Script / Script_Extensions are not stable across versions, so no sound oracle exists here; model-based verification with TLC does not apply (DESIGN.md section 6). The structural rules around property escapes are covered by C08 (name validity, strings only under v and never negated) and C12/C10 (complement, case closure)."}
man = {
 "version": 1,
 "setup_cmd": "./check --setup",
 "hooks": {
  "guard": "regress_verif",
  "enable": "--cfg regress_verif via /verif/harness/.cargo/config.toml rustflags (hooks also need the crate's std feature); src/verif.rs",
  "baseline_off_cmd": "cd /repo && cargo test --workspace --no-fail-fast --offline",
  "source_commits": HOOKS,
  "add_only": True,
 },
 "engines": [
  {"name": "tlc", "path": "spec/", "serves_properties": sorted(CHECKS), "kind_free_text": "TLA+ specification suite checked/evaluated by TLC (reference semantics, machine specs, trace specs, judges)"},
  {"name": "runner", "path": "harness/runner", "serves_properties": sorted(CHECKS), "kind_free_text": "Rust conformance harness: replays TLC-enumerated cases into the real crate, records observations, programs and executor traces"},
  {"name": "check", "path": "check", "serves_properties": sorted(CHECKS), "kind_free_text": "driver: builds from /repo's working tree, runs TLC and the runner, classifies, writes evidence"},
 ],
 "checks": [],
 "not_applicable": [],
 "notes": "See DESIGN.md. Exit 0 ok / 1 with VIOLATION lines / 2 tool error. known_findings.json lists recorded and fixed defects.",
}
for p in props:
    pid = p["id"]
    if pid in CHECKS:
        lvl, text, tech, ref, note = CHECKS[pid]
        man["checks"].append({
            "property_id": pid,
            "quick_cmd": "./check %s --tier quick" % pid,
            "thorough_cmd": "./check %s --tier thorough" % pid,
            "evidence_file": "evidence/%s.json" % pid,
            "replay_cmd_template": "./check %s --replay {path}" % pid,
            "engine": "tlc",
            "level_claimed": {"category": lvl, "text": text, "design_ref": "DESIGN.md section " + ref},
            "level_note": note,
            "technique": tech,
        })
    else:
        man["not_applicable"].append({"property_id": pid, "reason": NA.get(pid, "check under construction in this round (see DESIGN.md section 5 for the plan)")})
json.dump(man, open(os.path.join(ROOT, "MANIFEST.json"), "w"), indent=1)
print("checks:", [c["property_id"] for c in man["checks"]])
