#!/usr/bin/env python3
"""Print the markdown table of seeded changes (DESIGN.md section 13) from seeded/*/meta.json."""
import json, os, glob
ROOT = os.path.dirname(os.path.dirname(os.path.abspath(__file__)))
rows = []
for f in sorted(glob.glob(os.path.join(ROOT, "seeded", "C*_m*", "meta.json"))):
    m = json.load(open(f))
    first = ""
    for r in m["checks_run"]:
        if r["exit"] == 1 and r["first_violation"]:
            first = r["first_violation"]
    caught = ", ".join(m["caught_by"]) or "**missed**"
    hist = "; ".join("%s: exit %d" % (r["check"], r["exit"]) for r in m["checks_run"])
    rows.append("| %s | %s | %s | %s |" % (m["id"], m["breaks"].replace("|", "\\|")[:170], caught, first.replace("|", "\\|")[:150]))
print("| change | what it is | caught by (quick tier) | first report |")
print("|---|---|---|---|")
print("\n".join(rows))
