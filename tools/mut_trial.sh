#!/bin/sh
# usage: mut_trial.sh <name> <dir with patch.diff> <property>...
# Runs the quick checks of a *copy* of /verif against a scratch worktree of /repo with the seeded change applied,
# so that /repo and /verif themselves are left alone. Prints one line per check; removes the scratch dirs.
name=$1; d=$2; shift 2
W=/tmp/mw/$name
rm -rf "$W"; mkdir -p "$W"
git -C /repo worktree add -q --detach "$W/repo" HEAD || exit 2
( cd "$W/repo" && git apply "$d/patch.diff" ) || { echo "$name: patch does not apply"; git -C /repo worktree remove --force "$W/repo"; exit 2; }
mkdir -p "$W/verif"
( cd /verif && tar cf - --exclude=./out --exclude=./harness/target --exclude=./.git --exclude=./seeded . ) | ( cd "$W/verif" && tar xf - )
sed -i "s#path = \"/repo\"#path = \"$W/repo\"#" "$W/verif/harness/runner/Cargo.toml"
for p in "$@"; do
  out=$(cd "$W/verif" && ./check "$p" --tier quick 2>"$W/err.$p"); rc=$?
  nv=$(echo "$out" | grep -c '^VIOLATION')
  first=$(grep -E '^  ' "$W/err.$p" | head -1 | cut -c1-220)
  echo "RESULT $name $p rc=$rc violations=$nv |$first"
  if [ "$rc" = 2 ]; then tail -5 "$W/err.$p"; fi
done
git -C /repo worktree remove --force "$W/repo"
rm -rf "$W"
