#!/bin/sh
# usage: try_mut.sh <dir with patch.diff> <property> [<property>...]
# Applies the seeded change to /repo, runs the quick checks, reverts. Prints one line per check.
d=$1; shift
cd /repo || exit 2
if [ -n "$(git status --porcelain --untracked-files=no)" ]; then echo "repo dirty"; exit 2; fi
git apply "$d/patch.diff" || { echo "patch does not apply"; exit 2; }
for p in "$@"; do
  out=$(cd /verif && ./check "$p" --tier quick 2>/tmp/try_mut.err); rc=$?
  nv=$(echo "$out" | grep -c '^VIOLATION')
  echo "$(basename $(dirname $d))/$(basename $d) $p rc=$rc violations=$nv  $(grep -m1 -A1 '^VIOLATION' /dev/null; grep -E '^  ' /tmp/try_mut.err | head -1 | cut -c1-200)"
done
git -C /repo checkout -- .
