#!/bin/sh
# usage: run_muts.sh <list file: "<dir> <prop> [<prop>...]" per line>   -- applies each patch to /repo, runs the quick checks, reverts.
while read d props; do
  [ -z "$d" ] && continue
  cd /repo || exit 2
  if [ -n "$(git status --porcelain --untracked-files=no)" ]; then echo "repo dirty"; exit 2; fi
  git apply "$d/patch.diff" || { echo "RESULT $d patch-does-not-apply"; continue; }
  for p in $props; do
    t0=$(date +%s)
    out=$(cd /verif && ./check "$p" --tier quick 2>/tmp/run_muts.err); rc=$?
    nv=$(echo "$out" | grep -c '^VIOLATION')
    first=$(grep -E '^  ' /tmp/run_muts.err | head -1 | cut -c1-260)
    echo "RESULT $d $p rc=$rc violations=$nv secs=$(( $(date +%s) - t0 )) |$first"
    [ "$rc" = 2 ] && tail -4 /tmp/run_muts.err
  done
  git -C /repo checkout -- .
done < "$1"
