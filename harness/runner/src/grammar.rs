//! `runner grammar`: compile pattern strings (given as code point arrays, or as a compact
//! description of a huge pattern) under twelve flag sets, with and without the optimizer, and
//! record Ok / Err / panic for each.  Serves C08 (accepted language) and C07 (totality).
use crate::ast::Fl;
use crate::common::{cps_of, Common};
use crate::sem::panic_msg;
use serde_json::{json, Value};
use std::panic::{catch_unwind, AssertUnwindSafe};

pub const FLAGSETS: [&str; 12] = ["", "i", "m", "s", "ims", "u", "iu", "msu", "v", "iv", "msv", "imsv"];

pub fn flags_of(s: &str) -> Fl {
    Fl { i: s.contains('i'), m: s.contains('m'), s: s.contains('s'), u: s.contains('u'), v: s.contains('v'), sp: 0 }
}

/// 'o' = Ok, 'e' = Err, 'p' = panic
fn compile_class(pat: &[u32], fl: Fl, no_opt: bool, msgs: &mut Vec<String>) -> char {
    match catch_unwind(AssertUnwindSafe(|| regress::Regex::from_unicode(pat.iter().copied(), fl.to_regress(no_opt)).map(|_| ()))) {
        Ok(Ok(())) => 'o',
        Ok(Err(_)) => 'e',
        Err(e) => {
            msgs.push(panic_msg(e));
            'p'
        }
    }
}

/// A pattern is either "p": [code points] or "parts": [[code points, repeat], ...].
pub fn pattern_of(case: &Value) -> Vec<u32> {
    if let Some(parts) = case.get("parts").and_then(|v| v.as_array()) {
        let mut out = Vec::new();
        for part in parts {
            let unit = cps_of(&part[0]);
            let n = part[1].as_u64().unwrap() as usize;
            out.reserve(unit.len() * n);
            for _ in 0..n {
                out.extend_from_slice(&unit);
            }
        }
        out
    } else {
        cps_of(&case["p"])
    }
}

pub fn main(args: &[String]) -> i32 {
    let c = Common::parse(args);
    let with_p = c.has("--with-p");
    let only: Option<Vec<String>> = c.value("--flagsets").map(|s| s.split(',').map(|x| x.to_string()).collect());
    // Watchdog: a single compile call that does not return within the limit ends the process with
    // status 3; the driver attributes the death to the case announced last and resumes after it.
    let limit_ms: u64 = c.value("--limit-ms").and_then(|s| s.parse().ok()).unwrap_or(0);
    let started = std::sync::Arc::new(std::sync::atomic::AtomicU64::new(0));
    let epoch = std::time::Instant::now();
    if limit_ms > 0 {
        let started = started.clone();
        std::thread::spawn(move || loop {
            std::thread::sleep(std::time::Duration::from_millis(200));
            let s = started.load(std::sync::atomic::Ordering::SeqCst);
            if s != 0 && epoch.elapsed().as_millis() as u64 > s + limit_ms {
                eprintln!("TIMEOUT: a compile call did not return within {} ms", limit_ms);
                std::process::exit(3);
            }
        });
    }
    c.run(|idx, case| {
        let pat = pattern_of(case);
        let mut res = String::new();
        let mut res_noopt = String::new();
        let mut msgs = Vec::new();
        let t0 = std::time::Instant::now();
        let sets: Vec<&str> = match &only {
            Some(v) => v.iter().map(|s| s.as_str()).collect(),
            None => FLAGSETS.to_vec(),
        };
        for fs in &sets {
            let fl = flags_of(fs);
            started.store(epoch.elapsed().as_millis() as u64 + 1, std::sync::atomic::Ordering::SeqCst);
            res.push(compile_class(&pat, fl, false, &mut msgs));
            started.store(epoch.elapsed().as_millis() as u64 + 1, std::sync::atomic::Ordering::SeqCst);
            res_noopt.push(compile_class(&pat, fl, true, &mut msgs));
            started.store(0, std::sync::atomic::Ordering::SeqCst);
        }
        let mut rec = json!({"rid": idx, "res": res, "noopt": res_noopt, "ms": t0.elapsed().as_millis() as u64});
        if !msgs.is_empty() {
            msgs.truncate(2);
            rec["msgs"] = json!(msgs);
        }
        if with_p {
            rec["p"] = json!(pat);
        }
        if let Some(l) = case.get("label") {
            rec["label"] = l.clone();
        }
        rec
    })
}
