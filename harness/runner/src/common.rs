//! Argument handling and the case loop shared by the simple subcommands.
use serde_json::Value;
use std::io::{BufRead, Write};

pub struct Common {
    pub cases: String,
    pub out: String,
    pub shard: (usize, usize),
    pub skip: usize,
    pub rest: Vec<String>,
}

impl Common {
    pub fn parse(args: &[String]) -> Common {
        let mut c = Common { cases: String::new(), out: String::new(), shard: (0, 1), skip: 0, rest: Vec::new() };
        let mut it = args.iter();
        while let Some(a) = it.next() {
            match a.as_str() {
                "--cases" => c.cases = it.next().unwrap().clone(),
                "--out" => c.out = it.next().unwrap().clone(),
                "--shard" => {
                    let s = it.next().unwrap();
                    let (a, b) = s.split_once('/').unwrap();
                    c.shard = (a.parse().unwrap(), b.parse().unwrap());
                }
                "--skip" => c.skip = it.next().unwrap().parse().unwrap(),
                x => c.rest.push(x.to_string()),
            }
        }
        c
    }

    pub fn has(&self, flag: &str) -> bool {
        self.rest.iter().any(|x| x == flag)
    }

    pub fn value(&self, flag: &str) -> Option<String> {
        self.rest.iter().position(|x| x == flag).and_then(|k| self.rest.get(k + 1).cloned())
    }

    /// Call `f(index, case)` for every case of this shard; each returned value is one output line.
    /// The case index is announced on stderr first so that a process death can be attributed.
    pub fn run<F: FnMut(usize, &Value) -> Value>(&self, mut f: F) -> i32 {
        let file = std::fs::File::open(&self.cases).expect("open cases");
        let mut out = std::io::BufWriter::new(
            std::fs::OpenOptions::new().create(true).append(true).open(&self.out).expect("open out"),
        );
        let mut done = 0usize;
        for (idx, line) in std::io::BufReader::new(file).lines().enumerate() {
            let line = line.unwrap();
            if line.trim().is_empty() || idx % self.shard.1 != self.shard.0 {
                continue;
            }
            done += 1;
            if done <= self.skip {
                continue;
            }
            eprintln!("CASE {}", idx);
            let case: Value = serde_json::from_str(&line).expect("case json");
            let rec = f(idx, &case);
            writeln!(out, "{}", rec).unwrap();
            out.flush().unwrap();
        }
        0
    }
}

pub fn cps_of(v: &Value) -> Vec<u32> {
    v.as_array().map(|a| a.iter().map(|c| c.as_u64().unwrap() as u32).collect()).unwrap_or_default()
}
