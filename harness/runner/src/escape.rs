//! `runner escape`: escape(s) compiled under all twelve flag sets and matched against haystacks.
use crate::ast::Fl;
use crate::sem::{collect_from, convert, panic_msg, Engine, Hay, MatchRec};
use serde_json::{json, Value};
use std::io::{BufRead, Write};
use std::panic::{catch_unwind, AssertUnwindSafe};

pub fn main(args: &[String]) -> i32 {
    let mut cases_path = String::new();
    let mut out_path = String::new();
    let mut shard = (0usize, 1usize);
    let mut skip = 0usize;
    let mut it = args.iter();
    while let Some(a) = it.next() {
        match a.as_str() {
            "--cases" => cases_path = it.next().unwrap().clone(),
            "--out" => out_path = it.next().unwrap().clone(),
            "--shard" => {
                let s = it.next().unwrap();
                let (a, b) = s.split_once('/').unwrap();
                shard = (a.parse().unwrap(), b.parse().unwrap());
            }
            "--skip" => skip = it.next().unwrap().parse().unwrap(),
            x => {
                eprintln!("escape: unknown argument {}", x);
                return 2;
            }
        }
    }
    let f = std::fs::File::open(&cases_path).expect("open cases");
    let mut out = std::io::BufWriter::new(
        std::fs::OpenOptions::new().create(true).append(true).open(&out_path).expect("open out"),
    );
    let mut flagsets: Vec<Fl> = Vec::new();
    for uv in 0..3 {
        for bits in 0..4 {
            flagsets.push(Fl { i: bits & 1 != 0, m: bits & 2 != 0, s: bits == 3, u: uv == 1, v: uv == 2, sp: 0 });
        }
    }
    let mut done = 0usize;
    for (idx, line) in std::io::BufReader::new(f).lines().enumerate() {
        let line = line.unwrap();
        if line.trim().is_empty() || idx % shard.1 != shard.0 {
            continue;
        }
        done += 1;
        if done <= skip {
            continue;
        }
        eprintln!("CASE {}", idx);
        let case: Value = serde_json::from_str(&line).expect("case json");
        let s: String = case["s"].as_array().unwrap().iter().map(|c| char::from_u32(c.as_u64().unwrap() as u32).unwrap()).collect();
        let e = match catch_unwind(AssertUnwindSafe(|| regress::escape(&s))) {
            Ok(e) => e,
            Err(p) => {
                writeln!(out, "{}", json!({"rid": idx, "s": case["s"], "e": [], "hays": case["hays"], "res": [], "panic": panic_msg(p)})).unwrap();
                continue;
            }
        };
        let hays: Vec<Hay> = case["hays"]
            .as_array()
            .unwrap()
            .iter()
            .map(|h| Hay::new(&h.as_array().unwrap().iter().map(|c| c.as_u64().unwrap() as u32).collect::<Vec<u32>>()).unwrap())
            .collect();
        let mut res: Vec<Value> = Vec::new();
        for fl in &flagsets {
            let re = catch_unwind(AssertUnwindSafe(|| regress::Regex::with_flags(&e, fl.to_regress(false))));
            let flj = json!({"i": fl.i, "m": fl.m, "s": fl.s, "u": fl.u, "v": fl.v});
            match re {
                Ok(Ok(re)) => {
                    let mut ms: Vec<Value> = Vec::new();
                    for hay in &hays {
                        let mut bad = Vec::new();
                        let v: Vec<MatchRec> = match collect_from(&re, &hay.text, 0, Engine::Bt, false, hay.cps.len() + 8) {
                            Ok(m) => m.iter().map(|m| convert(m, hay, &mut bad)).collect(),
                            Err(_) => vec![vec![[-9, -9]]],
                        };
                        ms.push(json!(v));
                    }
                    res.push(json!({"flags": fl.as_string(), "fl": flj, "ok": true, "m": ms}));
                }
                Ok(Err(err)) => res.push(json!({"flags": fl.as_string(), "fl": flj, "ok": false, "m": [], "err": err.text})),
                Err(p) => res.push(json!({"flags": fl.as_string(), "fl": flj, "ok": false, "m": [], "err": panic_msg(p)})),
            }
        }
        let ecps: Vec<u32> = e.chars().map(|c| c as u32).collect();
        writeln!(out, "{}", json!({"rid": idx, "s": case["s"], "e": ecps, "hays": case["hays"], "res": res})).unwrap();
        out.flush().unwrap();
    }
    0
}
