//! `runner replace`: outputs of replace / replace_all / replace_with / replace_all_with for the
//! TLC-enumerated templates, together with the match sequence find_iter yields.
use crate::ast::{self, Fl};
use crate::sem::{collect_from, compile, convert, panic_msg, Engine, Hay, MatchRec};
use serde_json::{json, Value};
use std::io::{BufRead, Write};
use std::panic::{catch_unwind, AssertUnwindSafe};

fn cps(s: &str) -> Vec<u32> {
    s.chars().map(|c| c as u32).collect()
}

pub fn main(args: &[String]) -> i32 {
    let mut cases_path = String::new();
    let mut out_path = String::new();
    let mut shard = (0usize, 1usize);
    let mut skip = 0usize;
    let mut it = args.iter();
    while let Some(a) = it.next() {
        match a.as_str() {
            "--cases" => cases_path = it.next().unwrap().clone(),
            "--out" => out_path = it.next().unwrap().clone(),
            "--shard" => {
                let s = it.next().unwrap();
                let (a, b) = s.split_once('/').unwrap();
                shard = (a.parse().unwrap(), b.parse().unwrap());
            }
            "--skip" => skip = it.next().unwrap().parse().unwrap(),
            x => {
                eprintln!("replace: unknown argument {}", x);
                return 2;
            }
        }
    }
    let f = std::fs::File::open(&cases_path).expect("open cases");
    let mut out = std::io::BufWriter::new(
        std::fs::OpenOptions::new().create(true).append(true).open(&out_path).expect("open out"),
    );
    let mut done = 0usize;
    for (idx, line) in std::io::BufReader::new(f).lines().enumerate() {
        let line = line.unwrap();
        if line.trim().is_empty() || idx % shard.1 != shard.0 {
            continue;
        }
        done += 1;
        if done <= skip {
            continue;
        }
        eprintln!("CASE {}", idx);
        let case: Value = serde_json::from_str(&line).expect("case json");
        let fl = Fl::from_json(&case["fl"]);
        let pat = ast::render_pattern(&case["ast"], fl);
        let mut rec = serde_json::Map::new();
        rec.insert("rid".into(), json!(idx));
        for k in ["fam", "ng", "names", "fl", "hays", "templates"] {
            rec.insert(k.into(), case[k].clone());
        }
        rec.insert("pats".into(), json!(ast::cps_to_display(&pat)));
        rec.insert("flags".into(), json!(fl.as_string()));
        let re = match compile(&pat, fl, false) {
            Ok(re) => re,
            Err(e) => {
                rec.insert("compile".into(), json!(e));
                writeln!(out, "{}", Value::Object(rec)).unwrap();
                continue;
            }
        };
        rec.insert("compile".into(), json!("ok"));
        let templates: Vec<String> = case["templates"]
            .as_array()
            .unwrap()
            .iter()
            .map(|t| t.as_array().unwrap().iter().map(|c| char::from_u32(c.as_u64().unwrap() as u32).unwrap()).collect())
            .collect();
        let mut matches: Vec<Value> = Vec::new();
        let mut outs: Vec<Value> = Vec::new();
        let mut fails: Vec<Value> = Vec::new();
        for (hi, h) in case["hays"].as_array().unwrap().iter().enumerate() {
            let hc: Vec<u32> = h.as_array().unwrap().iter().map(|c| c.as_u64().unwrap() as u32).collect();
            let hay = Hay::new(&hc).expect("scalar haystack");
            let mut bad = Vec::new();
            let ms: Vec<MatchRec> = match collect_from(&re, &hay.text, 0, Engine::Bt, false, hay.cps.len() + 8) {
                Ok(ms) => ms.iter().map(|m| convert(m, &hay, &mut bad)).collect(),
                Err(e) => {
                    fails.push(json!({"h": hi, "what": e}));
                    Vec::new()
                }
            };
            matches.push(json!(ms));
            let r = catch_unwind(AssertUnwindSafe(|| {
                let rep: Vec<Vec<u32>> = templates.iter().map(|t| cps(&re.replace(&hay.text, t))).collect();
                let rep_all: Vec<Vec<u32>> = templates.iter().map(|t| cps(&re.replace_all(&hay.text, t))).collect();
                let text = hay.text.clone();
                let t2 = text.clone();
                json!({
                    "replace": rep,
                    "replace_all": rep_all,
                    "with_identity": cps(&re.replace_with(&hay.text, move |m| text[m.range()].to_string())),
                    "all_with_identity": cps(&re.replace_all_with(&hay.text, move |m| t2[m.range()].to_string())),
                    "with_const": cps(&re.replace_with(&hay.text, |_| "<\u{e9}>".to_string())),
                    "all_with_const": cps(&re.replace_all_with(&hay.text, |_| "<\u{e9}>".to_string())),
                })
            }));
            match r {
                Ok(v) => outs.push(v),
                Err(e) => {
                    fails.push(json!({"h": hi, "what": panic_msg(e)}));
                    outs.push(Value::Null);
                }
            }
        }
        rec.insert("matches".into(), Value::Array(matches));
        rec.insert("out".into(), Value::Array(outs));
        rec.insert("fails".into(), Value::Array(fails));
        writeln!(out, "{}", Value::Object(rec)).unwrap();
        out.flush().unwrap();
    }
    0
}
