//! `runner cpset`: replay the transitions of spec/IntervalSet.tla on the real CodePointSet
//! (through the hook wrapper regress::verif::VerifCodePointSet) and report every difference.
use crate::common::Common;
use serde_json::{json, Value};

#[cfg(all(regress_verif, not(feature = "f-alloc")))]
pub fn main(args: &[String]) -> i32 {
    use regress::verif::VerifCodePointSet as Set;
    fn ivs_of(v: &Value) -> Vec<(u32, u32)> {
        v.as_array()
            .map(|a| a.iter().map(|p| (p[0].as_u64().unwrap() as u32, p[1].as_u64().unwrap() as u32)).collect())
            .unwrap_or_default()
    }
    fn build(ivs: &[(u32, u32)]) -> Set {
        let mut s = Set::new();
        // insertion order should not matter: insert back to front
        for &(a, b) in ivs.iter().rev() {
            s.add(a, b);
        }
        s
    }
    fn well_formed(ivs: &[(u32, u32)]) -> bool {
        ivs.iter().all(|&(a, b)| a <= b && b <= 0x10FFFF) && ivs.windows(2).all(|w| w[0].1 + 1 < w[1].0)
    }
    let c = Common::parse(args);
    c.run(|idx, t| {
        let before = ivs_of(&t["before"]);
        let arg = ivs_of(&t["arg"]);
        let after = ivs_of(&t["after"]);
        let op = t["op"].as_str().unwrap();
        let r = std::panic::catch_unwind(|| {
            let mut s = build(&before);
            let mut wrong: Vec<String> = Vec::new();
            if s.intervals() != before {
                wrong.push(format!("building the state by add() gave {:?}", s.intervals()));
            }
            let other = build(&arg);
            match op {
                "add" => s.add(arg[0].0, arg[0].1),
                "add_set" => s.add_set(&other),
                "remove" => s.remove(&other),
                "intersect" => s.intersect(&other),
                "inverted" => s = s.inverted(),
                _ => wrong.push(format!("unknown op {}", op)),
            }
            let got = s.intervals();
            if got != after {
                wrong.push(format!("intervals {:?}", got));
            }
            if !well_formed(&got) {
                wrong.push("result is not sorted / disjoint / non-abutting".to_string());
            }
            let ic = s.inverted_interval_count();
            if ic as u64 != t["icount"].as_u64().unwrap() {
                wrong.push(format!("inverted_interval_count {}", ic));
            }
            // membership at every endpoint and its neighbours
            for &(a, b) in before.iter().chain(arg.iter()).chain(after.iter()) {
                for p in [a.wrapping_sub(1), a, a + 1, b.wrapping_sub(1), b, b.saturating_add(1)] {
                    if p > 0x10FFFF {
                        continue;
                    }
                    let exp = after.iter().any(|&(x, y)| x <= p && p <= y);
                    if s.contains(p) != exp {
                        wrong.push(format!("contains({:#x}) = {}", p, !exp));
                    }
                }
            }
            wrong
        });
        match r {
            Ok(w) if w.is_empty() => json!({"rid": idx, "ok": true}),
            Ok(w) => json!({"rid": idx, "ok": false, "wrong": w}),
            Err(e) => json!({"rid": idx, "ok": false, "wrong": [crate::sem::panic_msg(e)]}),
        }
    })
}

#[cfg(not(all(regress_verif, not(feature = "f-alloc"))))]
pub fn main(_args: &[String]) -> i32 {
    let _ = (Common::parse, json!(0), Value::Null);
    eprintln!("cpset needs the verification hooks");
    2
}
