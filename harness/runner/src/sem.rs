//! `runner sem`: run pattern cases on the real engine under every variant (optimizer on/off,
//! backtracker/Pike VM, UTF-8/ASCII entry points, derived/arbitrary start predicate) and record
//! what it did as one JSON line per case.

use crate::ast::{self, Fl};
use serde_json::{json, Value};
use std::io::{BufRead, Write};
use std::panic::{catch_unwind, AssertUnwindSafe};

pub type MatchRec = Vec<[i64; 2]>; // [range, cap1, ..]; [-1,-1] = did not participate

/// A haystack with the index translations the checks need.
pub struct Hay {
    pub cps: Vec<u32>,
    pub text: String,
    /// byte offset of code point index k (0..=len)
    pub cp_to_byte: Vec<usize>,
    /// code point index of byte offset b, or -2 if b is not a boundary
    pub byte_to_cp: Vec<i64>,
    pub is_ascii: bool,
}

impl Hay {
    pub fn new(cps: &[u32]) -> Option<Hay> {
        let mut text = String::new();
        let mut cp_to_byte = vec![0usize];
        for &c in cps {
            text.push(char::from_u32(c)?);
            cp_to_byte.push(text.len());
        }
        let mut byte_to_cp = vec![-2i64; text.len() + 1];
        for (k, &b) in cp_to_byte.iter().enumerate() {
            byte_to_cp[b] = k as i64;
        }
        Some(Hay {
            cps: cps.to_vec(),
            is_ascii: text.is_ascii(),
            text,
            cp_to_byte,
            byte_to_cp,
        })
    }
}

/// Convert a Match to code point indices, checking what C06 states about ranges.
pub fn convert(m: &regress::Match, hay: &Hay, bad: &mut Vec<String>) -> MatchRec {
    let len = hay.text.len();
    let mut out = Vec::with_capacity(1 + m.captures.len());
    let mut conv = |r: &std::ops::Range<usize>, what: &str| -> [i64; 2] {
        if r.start > r.end || r.end > len {
            bad.push(format!("{} {}..{} outside 0..{}", what, r.start, r.end, len));
            return [-3, -3];
        }
        if !hay.text.is_char_boundary(r.start) || !hay.text.is_char_boundary(r.end) {
            bad.push(format!("{} {}..{} not on a char boundary", what, r.start, r.end));
            return [-2, -2];
        }
        // Slicing must not fail.
        let _ = &hay.text[r.clone()];
        [hay.byte_to_cp[r.start], hay.byte_to_cp[r.end]]
    };
    out.push(conv(&m.range, "match"));
    for (k, c) in m.captures.iter().enumerate() {
        match c {
            Some(r) => out.push(conv(r, &format!("capture {}", k + 1))),
            None => out.push([-1, -1]),
        }
    }
    out
}

pub fn byte_rec(m: &regress::Match) -> MatchRec {
    let mut out = vec![[m.range.start as i64, m.range.end as i64]];
    for c in &m.captures {
        out.push(match c {
            Some(r) => [r.start as i64, r.end as i64],
            None => [-1, -1],
        });
    }
    out
}

#[derive(Clone, Copy, PartialEq, Eq, Debug)]
pub enum Engine {
    Bt,
    Pike,
}

/// Collect the whole match sequence from a byte offset. The iterator is polled a few more
/// times after None to observe that it is fused; `Err` carries a panic message.
pub fn collect_from(
    re: &regress::Regex,
    text: &str,
    start: usize,
    engine: Engine,
    ascii: bool,
    limit: usize,
) -> Result<Vec<regress::Match>, String> {
    let r = catch_unwind(AssertUnwindSafe(|| {
        use regress::backends as b;
        let mut out = Vec::new();
        macro_rules! drain {
            ($it:expr) => {{
                let mut it = $it;
                let mut unfused = false;
                while let Some(m) = it.next() {
                    out.push(m);
                    if out.len() > limit {
                        break;
                    }
                }
                if out.len() <= limit {
                    for _ in 0..3 {
                        if it.next().is_some() {
                            unfused = true;
                        }
                    }
                }
                unfused
            }};
        }
        let unfused = match (engine, ascii) {
            (Engine::Bt, false) => drain!(b::find::<b::BacktrackExecutor>(re, text, start)),
            (Engine::Bt, true) => drain!(b::find_ascii::<b::BacktrackExecutor>(re, text, start)),
            (Engine::Pike, false) => drain!(b::find::<b::PikeVMExecutor>(re, text, start)),
            (Engine::Pike, true) => drain!(b::find_ascii::<b::PikeVMExecutor>(re, text, start)),
        };
        (out, unfused)
    }));
    match r {
        Ok((out, false)) => Ok(out),
        Ok((_, true)) => Err("iterator yielded a match after returning None".to_string()),
        Err(e) => Err(panic_msg(e)),
    }
}

/// Run `f` under the fuel hook (when the hooks are compiled in): an executor that dispatches more
/// than `fuel` instructions panics, which the callers record as a failure of the case.
pub fn fueled<T>(fuel: u64, f: impl FnOnce() -> T) -> T {
    #[cfg(all(regress_verif, not(feature = "f-alloc")))]
    regress::verif::begin(false, 0, fuel);
    let r = f();
    #[cfg(all(regress_verif, not(feature = "f-alloc")))]
    regress::verif::end();
    let _ = fuel;
    r
}

pub fn panic_msg(e: Box<dyn std::any::Any + Send>) -> String {
    if let Some(s) = e.downcast_ref::<&str>() {
        format!("panic: {}", s)
    } else if let Some(s) = e.downcast_ref::<String>() {
        format!("panic: {}", s)
    } else {
        "panic".to_string()
    }
}

pub fn compile(pat: &[u32], fl: Fl, no_opt: bool) -> Result<regress::Regex, String> {
    match catch_unwind(AssertUnwindSafe(|| {
        regress::Regex::from_unicode(pat.iter().copied(), fl.to_regress(no_opt))
    })) {
        Ok(Ok(re)) => Ok(re),
        Ok(Err(e)) => Err(format!("err: {}", e.text)),
        Err(e) => Err(panic_msg(e)),
    }
}

fn recs_json(ms: &[MatchRec]) -> Value {
    json!(ms)
}

/// What the accessors of a Match report, in code point indices ([-1,-1] = None).
fn api_record(m: &regress::Match, hay: &Hay, names: &[String]) -> Value {
    let mut bad = Vec::new();
    let conv = |r: Option<std::ops::Range<usize>>, bad: &mut Vec<String>| -> [i64; 2] {
        match r {
            None => [-1, -1],
            Some(r) => {
                if r.end > hay.text.len() || r.start > r.end || !hay.text.is_char_boundary(r.start) || !hay.text.is_char_boundary(r.end) {
                    bad.push(format!("accessor range {}..{}", r.start, r.end));
                    [-3, -3]
                } else {
                    [hay.byte_to_cp[r.start], hay.byte_to_cp[r.end]]
                }
            }
        }
    };
    let n = m.captures.len();
    let group: Vec<[i64; 2]> = (0..=n + 1).map(|i| conv(m.group(i), &mut bad)).collect();
    let groups: Vec<[i64; 2]> = m.groups().map(|g| conv(g, &mut bad)).collect();
    let groups_len_hint = m.groups().len();
    let mut probe: Vec<String> = names.iter().filter(|s| !s.is_empty()).cloned().collect();
    probe.sort();
    probe.dedup();
    probe.push("zz".to_string());
    probe.push(String::new());
    let named: Vec<Value> = probe
        .iter()
        .map(|nm| {
            let cps: Vec<u32> = nm.chars().map(|c| c as u32).collect();
            json!([cps, conv(m.named_group(nm), &mut bad)])
        })
        .collect();
    let named_groups: Vec<Value> = m
        .named_groups()
        .map(|(nm, r)| {
            let cps: Vec<u32> = nm.chars().map(|c| c as u32).collect();
            json!([cps, conv(r, &mut bad)])
        })
        .collect();
    let named_groups_len_hint = m.named_groups().len();
    json!({
        "range": conv(Some(m.range()), &mut bad),
        "startend": [hay.byte_to_cp[m.start().min(hay.text.len())], hay.byte_to_cp[m.end().min(hay.text.len())]],
        "as_str_ok": m.as_str(&hay.text) == &hay.text[m.range()],
        "ncaps": n,
        "group": group,
        "groups": groups,
        "groups_len": groups_len_hint,
        "named": named,
        "named_groups": named_groups,
        "named_groups_len": named_groups_len_hint,
        "bad": bad,
    })
}

pub struct SemOpts {
    pub api: bool,
    pub ascii: bool,
    pub arbitrary: bool,
    pub progs: bool,
    pub cost: bool,
    pub trace_every: usize,
    pub fuel: u64,
}

/// Run one case. Returns the observation record for the semantic judge and (when programs,
/// costs or traces were requested) the record for the machine-level judge.
pub fn run_case(idx: usize, case: &Value, o: &SemOpts) -> (Value, Option<Value>, Vec<Value>) {
    let mut fl = Fl::from_json(&case["fl"]);
    fl.sp = case.get("sp").and_then(|v| v.as_u64()).unwrap_or(0) as u8;
    let pat = ast::render_pattern(&case["ast"], fl);
    let mut rec = serde_json::Map::new();
    rec.insert("rid".into(), json!(idx));
    for k in ["fam", "ast", "ng", "names", "fl", "hays", "sp"] {
        if let Some(v) = case.get(k) {
            rec.insert(k.into(), v.clone());
        }
    }
    let mut vm = serde_json::Map::new();
    vm.insert("rid".into(), json!(idx));
    for k in ["fam", "fl", "hays", "ng", "ast", "names"] {
        if let Some(v) = case.get(k) {
            vm.insert(k.into(), v.clone());
        }
    }
    vm.insert("pat".into(), json!(pat));
    vm.insert("pats".into(), json!(ast::cps_to_display(&pat)));
    rec.insert("pats".into(), json!(ast::cps_to_display(&pat)));
    rec.insert("flags".into(), json!(fl.as_string()));

    let re_opt = compile(&pat, fl, false);
    let re_noopt = compile(&pat, fl, true);
    let cstat = |r: &Result<regress::Regex, String>| match r {
        Ok(_) => "ok".to_string(),
        Err(e) => e.clone(),
    };
    rec.insert(
        "compile".into(),
        json!({"opt": cstat(&re_opt), "noopt": cstat(&re_noopt)}),
    );
    let (re_opt, re_noopt) = match (re_opt, re_noopt) {
        (Ok(a), Ok(b)) => (a, b),
        _ => return (Value::Object(rec), None, Vec::new()),
    };

    #[cfg(all(regress_verif, not(feature = "f-alloc")))]
    let re_arb = if o.arbitrary {
        Some((
            re_opt.verif_with_arbitrary_start_pred(),
            re_noopt.verif_with_arbitrary_start_pred(),
        ))
    } else {
        None
    };
    #[cfg(all(regress_verif, not(feature = "f-alloc")))]
    if o.progs {
        let p1: Value = serde_json::from_str(&re_opt.verif_program_json()).unwrap();
        let p2: Value = serde_json::from_str(&re_noopt.verif_program_json()).unwrap();
        vm.insert("progs".into(), json!({"opt": p1, "noopt": p2}));
        // the tree after parsing and after every optimizer pass that changed it
        let ir = catch_unwind(AssertUnwindSafe(|| {
            regress::verif::ir_trace_json(pat.iter().copied(), fl.to_regress(false))
        }));
        if let Ok(Ok(s)) = ir {
            if let Ok(v) = serde_json::from_str::<Value>(&s) {
                vm.insert("ir".into(), v["stages"].clone());
            }
        }
    }

    let hays: Vec<Vec<u32>> = case["hays"]
        .as_array()
        .unwrap()
        .iter()
        .map(|h| h.as_array().unwrap().iter().map(|c| c.as_u64().unwrap() as u32).collect())
        .collect();

    let mut obs: Vec<Value> = Vec::new();
    let mut diffs: Vec<Value> = Vec::new();
    let mut bad: Vec<Value> = Vec::new();
    let mut fails: Vec<Value> = Vec::new();
    let mut bfirst: Vec<Value> = Vec::new();
    let mut costs: Vec<Value> = Vec::new();
    let mut traces: Vec<Value> = Vec::new();
    let mut nvariants = 0usize;
    let mut api: Vec<Value> = Vec::new();
    let names: Vec<String> = case
        .get("names")
        .and_then(|v| v.as_array())
        .map(|a| {
            a.iter()
                .map(|n| n.as_array().unwrap().iter().map(|c| char::from_u32(c.as_u64().unwrap() as u32).unwrap()).collect())
                .collect()
        })
        .unwrap_or_default();

    for (hi, hcps) in hays.iter().enumerate() {
        let Some(hay) = Hay::new(hcps) else {
            obs.push(json!([]));
            bfirst.push(Value::Null);
            fails.push(json!({"h": hi, "what": "haystack is not a scalar-value string"}));
            continue;
        };
        let limit = hay.cps.len() + 8;
        let mut per_start: Vec<Value> = Vec::new();
        // start index len+1 is "beyond the end"
        for s in 0..=(hay.cps.len() + 1) {
            let sb = if s <= hay.cps.len() { hay.cp_to_byte[s] } else { hay.text.len() + 1 };
            let mut badv: Vec<String> = Vec::new();
            // every run is bounded by the fuel hook, so that a search that does not terminate is a
            // recorded failure of its case instead of a hang (or an out-of-memory kill) of the runner
            #[cfg(all(regress_verif, not(feature = "f-alloc")))]
            regress::verif::begin(false, 0, o.fuel);
            // primary: public API (backtracker, optimized, UTF-8)
            let prim = catch_unwind(AssertUnwindSafe(|| {
                let mut it = re_opt.find_from(&hay.text, sb);
                let mut v = Vec::new();
                while let Some(m) = it.next() {
                    v.push(m);
                    if v.len() > limit {
                        break;
                    }
                }
                v
            }));
            #[cfg(all(regress_verif, not(feature = "f-alloc")))]
            regress::verif::end();
            let prim = match prim {
                Ok(v) => v,
                Err(e) => {
                    fails.push(json!({"h": hi, "s": s, "var": "api", "what": panic_msg(e)}));
                    // an impossible match stands for "the call panicked": the judges see a mismatch
                    per_start.push(json!([[[-9, -9]]]));
                    if s == 0 {
                        bfirst.push(json!([[-9, -9]]));
                        if o.api {
                            api.push(json!([]));
                        }
                    }
                    continue;
                }
            };
            if prim.len() > limit {
                fails.push(json!({"h": hi, "s": s, "var": "api", "what": "more matches than positions"}));
            }
            let prim_recs: Vec<MatchRec> = prim.iter().map(|m| convert(m, &hay, &mut badv)).collect();
            if s == 0 && o.api {
                let recs: Vec<Value> = match catch_unwind(AssertUnwindSafe(|| {
                    prim.iter().map(|m| api_record(m, &hay, &names)).collect::<Vec<Value>>()
                })) {
                    Ok(v) => v,
                    Err(e) => {
                        fails.push(json!({"h": hi, "s": 0, "var": "accessors", "what": panic_msg(e)}));
                        Vec::new()
                    }
                };
                api.push(Value::Array(recs));
            }
            if s == 0 {
                bfirst.push(match prim.first() {
                    Some(m) => json!(byte_rec(m)),
                    None => json!([]),
                });
            }
            // the other variants
            let mut variants: Vec<(&str, &regress::Regex, Engine, bool)> = vec![
                ("bt_opt", &re_opt, Engine::Bt, false),
                ("pv_opt", &re_opt, Engine::Pike, false),
                ("bt_noopt", &re_noopt, Engine::Bt, false),
                ("pv_noopt", &re_noopt, Engine::Pike, false),
            ];
            if o.ascii && hay.is_ascii {
                variants.push(("bt_opt_ascii", &re_opt, Engine::Bt, true));
                variants.push(("pv_opt_ascii", &re_opt, Engine::Pike, true));
                variants.push(("bt_noopt_ascii", &re_noopt, Engine::Bt, true));
                variants.push(("pv_noopt_ascii", &re_noopt, Engine::Pike, true));
            }
            #[cfg(all(regress_verif, not(feature = "f-alloc")))]
            if let Some((a, b)) = &re_arb {
                variants.push(("bt_opt_arb", a, Engine::Bt, false));
                variants.push(("pv_opt_arb", a, Engine::Pike, false));
                variants.push(("bt_noopt_arb", b, Engine::Bt, false));
            }
            for (name, re, eng, ascii) in variants {
                nvariants += 1;
                #[cfg(all(regress_verif, not(feature = "f-alloc")))]
                regress::verif::begin(false, 0, o.fuel);
                let collected = collect_from(re, &hay.text, sb, eng, ascii, limit);
                #[cfg(all(regress_verif, not(feature = "f-alloc")))]
                regress::verif::end();
                match collected {
                    Ok(ms) => {
                        let recs: Vec<MatchRec> = ms.iter().map(|m| convert(m, &hay, &mut badv)).collect();
                        if recs != prim_recs {
                            diffs.push(json!({"var": name, "h": hi, "s": s, "got": recs_json(&recs)}));
                        } else if s == 0 && o.api && !ascii {
                            // the accessors of every executor's and pipeline's matches must read like the
                            // primary's (which TLC judges against MatchAPI.tla)
                            let theirs = catch_unwind(AssertUnwindSafe(|| {
                                ms.iter().map(|m| api_record(m, &hay, &names)).collect::<Vec<Value>>()
                            }));
                            match theirs {
                                Ok(v) => {
                                    if let Some(Value::Array(mine)) = api.last() {
                                        if let Some(k) = (0..v.len().min(mine.len())).find(|&k| v[k] != mine[k]) {
                                            fails.push(json!({"h": hi, "s": 0, "var": format!("api_{}", name),
                                                "what": format!("accessors of match {} differ from the primary executor's: {} vs {}", k, v[k], mine[k])}));
                                        }
                                    }
                                }
                                Err(e) => fails.push(json!({"h": hi, "s": 0, "var": format!("api_{}", name), "what": panic_msg(e)})),
                            }
                        }
                    }
                    Err(e) => fails.push(json!({"h": hi, "s": s, "var": name, "what": e})),
                }
            }
            for b in badv {
                bad.push(json!({"h": hi, "s": s, "what": b}));
            }
            per_start.push(recs_json(&prim_recs));
        }
        obs.push(Value::Array(per_start));

        // cost and traces of the whole iteration from start 0, both executors, both pipelines
        #[cfg(all(regress_verif, not(feature = "f-alloc")))]
        if o.cost || o.progs {
            let mut c: Vec<i64> = Vec::new();
            let want_trace = o.trace_every > 0 && (idx + hi) % o.trace_every == 0;
            for (name, re, eng) in [
                ("bt_opt", &re_opt, Engine::Bt),
                ("pv_opt", &re_opt, Engine::Pike),
                ("bt_noopt", &re_noopt, Engine::Bt),
                ("pv_noopt", &re_noopt, Engine::Pike),
            ] {
                regress::verif::begin(want_trace, 20_000, o.fuel);
                let r = collect_from(re, &hay.text, 0, eng, false, limit);
                let rc = regress::verif::end();
                match r {
                    Ok(_) => {
                        c.push(rc.steps as i64);
                        c.push(rc.max_depth as i64);
                        if want_trace && rc.dropped == 0 {
                            // keep instruction dispatches and the top-level attempt brackets
                            let mut ev: Vec<[u32; 5]> = Vec::new();
                            let mut nest = 0i32;
                            for e in rc.events.iter() {
                                let keep = match e.kind {
                                    regress::verif::EV_ENTER => {
                                        nest += 1;
                                        nest == 1
                                    }
                                    regress::verif::EV_LEAVE => {
                                        nest -= 1;
                                        nest == 0
                                    }
                                    regress::verif::EV_INSN => true,
                                    _ => false,
                                };
                                if keep {
                                    ev.push([e.kind as u32, e.ip, e.pos, e.depth, e.forward as u32]);
                                }
                            }
                            #[cfg(all(regress_verif, not(feature = "f-alloc")))]
                            {
                                let prog: Value = serde_json::from_str(&re.verif_program_json()).unwrap();
                                let bytes: Vec<u32> = hay.text.bytes().map(|b| b as u32).collect();
                                traces.push(json!({"rid": idx, "h": hi, "var": name, "engine": if eng == Engine::Bt { "bt" } else { "pv" },
                                    "prog": prog, "bytes": bytes, "pats": ast::cps_to_display(&pat), "flags": fl.as_string(), "ev": ev}));
                            }
                        }
                    }
                    Err(e) => {
                        c.push(-1);
                        c.push(-1);
                        fails.push(json!({"h": hi, "s": 0, "var": format!("cost_{}", name), "what": e}));
                    }
                }
            }
            costs.push(json!(c));
        }
    }
    rec.insert("obs".into(), Value::Array(obs));
    rec.insert("diffs".into(), Value::Array(diffs));
    rec.insert("bad".into(), Value::Array(bad));
    rec.insert("fails".into(), Value::Array(fails));
    rec.insert("nvar".into(), json!(nvariants));
    if o.api {
        rec.insert("api".into(), Value::Array(api));
    }
    vm.insert("bfirst".into(), Value::Array(bfirst));
    // the engine's own step counts: a machine specification that spends its fuel where the engine finished the
    // whole iteration in fewer steps has left the engine's behaviour
    if o.progs {
        vm.insert("esteps".into(), Value::Array(costs.clone()));
    }
    if o.cost {
        rec.insert("cost".into(), Value::Array(costs));
    }
    let want_vm = o.progs || o.cost;
    (Value::Object(rec), if want_vm { Some(Value::Object(vm)) } else { None }, traces)
}

pub fn main(args: &[String]) -> i32 {
    let mut cases_path = String::new();
    let mut out_path = String::new();
    let mut vm_path = String::new();
    let mut trace_path = String::new();
    let mut shard = (0usize, 1usize);
    let mut skip = 0usize;
    let mut o = SemOpts {
        api: false,
        ascii: true,
        arbitrary: false,
        progs: false,
        cost: false,
        trace_every: 0,
        fuel: 2_000_000,
    };
    let mut it = args.iter();
    while let Some(a) = it.next() {
        match a.as_str() {
            "--cases" => cases_path = it.next().unwrap().clone(),
            "--out" => out_path = it.next().unwrap().clone(),
            "--vm-out" => vm_path = it.next().unwrap().clone(),
            "--trace-out" => trace_path = it.next().unwrap().clone(),
            "--shard" => {
                let s = it.next().unwrap();
                let (a, b) = s.split_once('/').unwrap();
                shard = (a.parse().unwrap(), b.parse().unwrap());
            }
            "--skip" => skip = it.next().unwrap().parse().unwrap(),
            "--no-ascii" => o.ascii = false,
            "--arbitrary" => o.arbitrary = true,
            "--progs" => o.progs = true,
            "--api" => o.api = true,
            "--cost" => o.cost = true,
            "--trace-every" => o.trace_every = it.next().unwrap().parse().unwrap(),
            "--fuel" => o.fuel = it.next().unwrap().parse().unwrap(),
            x => {
                eprintln!("sem: unknown argument {}", x);
                return 2;
            }
        }
    }
    let f = std::fs::File::open(&cases_path).expect("open cases");
    let mut out = std::io::BufWriter::new(
        std::fs::OpenOptions::new()
            .create(true)
            .append(true)
            .open(&out_path)
            .expect("open out"),
    );
    let mut vm_out = if vm_path.is_empty() {
        None
    } else {
        Some(std::io::BufWriter::new(
            std::fs::OpenOptions::new()
                .create(true)
                .append(true)
                .open(&vm_path)
                .expect("open vm out"),
        ))
    };
    let mut trace_out = if trace_path.is_empty() {
        None
    } else {
        Some(std::io::BufWriter::new(
            std::fs::OpenOptions::new()
                .create(true)
                .append(true)
                .open(&trace_path)
                .expect("open trace out"),
        ))
    };
    let mut done = 0usize;
    for (idx, line) in std::io::BufReader::new(f).lines().enumerate() {
        let line = line.unwrap();
        if line.trim().is_empty() || idx % shard.1 != shard.0 {
            continue;
        }
        done += 1;
        if done <= skip {
            continue;
        }
        let case: Value = serde_json::from_str(&line).expect("case json");
        // announce the case on stderr first so that an abort can be attributed
        eprintln!("CASE {}", idx);
        let (rec, vm, traces) = run_case(idx, &case, &o);
        if let Some(w) = trace_out.as_mut() {
            for t in traces {
                writeln!(w, "{}", t).unwrap();
            }
            w.flush().unwrap();
        }
        writeln!(out, "{}", rec).unwrap();
        out.flush().unwrap();
        if let (Some(w), Some(vm)) = (vm_out.as_mut(), vm) {
            writeln!(w, "{}", vm).unwrap();
            w.flush().unwrap();
        }
    }
    0
}
