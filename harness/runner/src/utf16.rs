//! UTF-16 / UCS-2 entry points (cargo feature `utf16` of regress, runner feature `f-utf16`).
//!  `sem16`: the cases of `sem`, with the haystack encoded as UTF-16 and searched through
//!           find_from_utf16 (primary observation, in code point indices, judged like `sem`),
//!           compared with find_from_ucs2 (haystacks without supplementary characters) and
//!           with the string API of the same build.
//!  `u16robust`: every u16 string up to a length over a unit alphabet with lone surrogates,
//!           through both entry points from every offset: must return, ranges inside the slice.
#![cfg(feature = "f-utf16")]
use crate::ast::{self, Fl};
use crate::common::Common;
use crate::sem::{compile, fueled, panic_msg, Hay, MatchRec};

const FUEL: u64 = 2_000_000;
use serde_json::{json, Value};
use std::panic::{catch_unwind, AssertUnwindSafe};

struct Hay16 {
    units: Vec<u16>,
    /// unit offset of code point index k
    cp_to_unit: Vec<usize>,
    /// code point index of unit offset u, or -2 inside a pair
    unit_to_cp: Vec<i64>,
    bmp_only: bool,
}

impl Hay16 {
    fn new(h: &Hay) -> Hay16 {
        let mut units = Vec::new();
        let mut cp_to_unit = vec![0usize];
        for ch in h.text.chars() {
            let mut buf = [0u16; 2];
            units.extend_from_slice(ch.encode_utf16(&mut buf));
            cp_to_unit.push(units.len());
        }
        let mut unit_to_cp = vec![-2i64; units.len() + 1];
        for (k, &u) in cp_to_unit.iter().enumerate() {
            unit_to_cp[u] = k as i64;
        }
        Hay16 { bmp_only: units.len() == h.cps.len(), units, cp_to_unit, unit_to_cp }
    }
}

fn convert16(m: &regress::Match, h: &Hay16, bad: &mut Vec<String>) -> MatchRec {
    let len = h.units.len();
    let mut conv = |r: &std::ops::Range<usize>, what: &str| -> [i64; 2] {
        if r.start > r.end || r.end > len {
            bad.push(format!("{} {}..{} outside 0..{}", what, r.start, r.end, len));
            return [-3, -3];
        }
        if h.unit_to_cp[r.start] < 0 || h.unit_to_cp[r.end] < 0 {
            bad.push(format!("{} {}..{} splits a surrogate pair", what, r.start, r.end));
            return [-2, -2];
        }
        [h.unit_to_cp[r.start], h.unit_to_cp[r.end]]
    };
    let mut out = vec![conv(&m.range, "match")];
    for (k, c) in m.captures.iter().enumerate() {
        out.push(match c {
            Some(r) => conv(r, &format!("capture {}", k + 1)),
            None => [-1, -1],
        });
    }
    out
}

fn drain<I: Iterator<Item = regress::Match>>(mut it: I, limit: usize) -> (Vec<regress::Match>, bool) {
    let mut v = Vec::new();
    while let Some(m) = it.next() {
        v.push(m);
        if v.len() > limit {
            return (v, false);
        }
    }
    let mut unfused = false;
    for _ in 0..3 {
        if it.next().is_some() {
            unfused = true;
        }
    }
    (v, unfused)
}

pub fn sem16(args: &[String]) -> i32 {
    let c = Common::parse(args);
    c.run(|idx, case| {
        let mut fl = Fl::from_json(&case["fl"]);
        fl.sp = case.get("sp").and_then(|v| v.as_u64()).unwrap_or(0) as u8;
        let pat = ast::render_pattern(&case["ast"], fl);
        let mut rec = serde_json::Map::new();
        rec.insert("rid".into(), json!(idx));
        for k in ["fam", "ast", "ng", "names", "fl", "hays", "sp"] {
            if let Some(v) = case.get(k) {
                rec.insert(k.into(), v.clone());
            }
        }
        rec.insert("pats".into(), json!(ast::cps_to_display(&pat)));
        rec.insert("flags".into(), json!(fl.as_string()));
        let re_opt = compile(&pat, fl, false);
        let re_noopt = compile(&pat, fl, true);
        let cstat = |r: &Result<regress::Regex, String>| match r {
            Ok(_) => "ok".to_string(),
            Err(e) => e.clone(),
        };
        rec.insert("compile".into(), json!({"opt": cstat(&re_opt), "noopt": cstat(&re_noopt)}));
        let (re_opt, re_noopt) = match (re_opt, re_noopt) {
            (Ok(a), Ok(b)) => (a, b),
            _ => return Value::Object(rec),
        };
        let mut obs: Vec<Value> = Vec::new();
        let mut diffs: Vec<Value> = Vec::new();
        let mut bad: Vec<Value> = Vec::new();
        let mut fails: Vec<Value> = Vec::new();
        let mut nvar = 0usize;
        for (hi, hv) in case["hays"].as_array().unwrap().iter().enumerate() {
            let hcps: Vec<u32> = hv.as_array().unwrap().iter().map(|c| c.as_u64().unwrap() as u32).collect();
            let Some(hay) = Hay::new(&hcps) else {
                obs.push(json!([]));
                fails.push(json!({"h": hi, "what": "haystack is not a scalar-value string"}));
                continue;
            };
            let h16 = Hay16::new(&hay);
            let limit = hay.cps.len() + 8;
            let mut per_start: Vec<Value> = Vec::new();
            for s in 0..=(hay.cps.len() + 1) {
                let su = if s <= hay.cps.len() { h16.cp_to_unit[s] } else { h16.units.len() + 1 };
                let sb = if s <= hay.cps.len() { hay.cp_to_byte[s] } else { hay.text.len() + 1 };
                let mut badv: Vec<String> = Vec::new();
                let prim = catch_unwind(AssertUnwindSafe(|| fueled(FUEL, || drain(re_opt.find_from_utf16(&h16.units, su), limit))));
                let (prim, unfused) = match prim {
                    Ok(v) => v,
                    Err(e) => {
                        fails.push(json!({"h": hi, "s": s, "var": "utf16", "what": panic_msg(e)}));
                        per_start.push(json!([[[-9, -9]]]));
                        continue;
                    }
                };
                if unfused {
                    fails.push(json!({"h": hi, "s": s, "var": "utf16", "what": "iterator yielded a match after returning None"}));
                }
                if prim.len() > limit {
                    fails.push(json!({"h": hi, "s": s, "var": "utf16", "what": "more matches than positions"}));
                }
                let prim_recs: Vec<MatchRec> = prim.iter().map(|m| convert16(m, &h16, &mut badv)).collect();
                // variants
                let mut variants: Vec<(&str, Result<(Vec<regress::Match>, bool), String>, bool)> = Vec::new();
                variants.push(("utf16_noopt", catch_unwind(AssertUnwindSafe(|| fueled(FUEL, || drain(re_noopt.find_from_utf16(&h16.units, su), limit)))).map_err(panic_msg), true));
                if h16.bmp_only {
                    variants.push(("ucs2_opt", catch_unwind(AssertUnwindSafe(|| fueled(FUEL, || drain(re_opt.find_from_ucs2(&h16.units, su), limit)))).map_err(panic_msg), true));
                    variants.push(("ucs2_noopt", catch_unwind(AssertUnwindSafe(|| fueled(FUEL, || drain(re_noopt.find_from_ucs2(&h16.units, su), limit)))).map_err(panic_msg), true));
                }
                variants.push(("utf8_opt", catch_unwind(AssertUnwindSafe(|| fueled(FUEL, || drain(re_opt.find_from(&hay.text, sb), limit)))).map_err(panic_msg), false));
                variants.push(("utf8_noopt", catch_unwind(AssertUnwindSafe(|| fueled(FUEL, || drain(re_noopt.find_from(&hay.text, sb), limit)))).map_err(panic_msg), false));
                for (name, r, is16) in variants {
                    nvar += 1;
                    match r {
                        Ok((ms, unf)) => {
                            if unf {
                                fails.push(json!({"h": hi, "s": s, "var": name, "what": "iterator yielded a match after returning None"}));
                            }
                            let recs: Vec<MatchRec> = if is16 {
                                ms.iter().map(|m| convert16(m, &h16, &mut badv)).collect()
                            } else {
                                ms.iter().map(|m| crate::sem::convert(m, &hay, &mut badv)).collect()
                            };
                            if recs != prim_recs {
                                diffs.push(json!({"var": name, "h": hi, "s": s, "got": recs}));
                            }
                        }
                        Err(e) => fails.push(json!({"h": hi, "s": s, "var": name, "what": e})),
                    }
                }
                for b in badv {
                    bad.push(json!({"h": hi, "s": s, "what": b}));
                }
                per_start.push(json!(prim_recs));
            }
            obs.push(Value::Array(per_start));
        }
        rec.insert("obs".into(), Value::Array(obs));
        rec.insert("diffs".into(), Value::Array(diffs));
        rec.insert("bad".into(), Value::Array(bad));
        rec.insert("fails".into(), Value::Array(fails));
        rec.insert("nvar".into(), json!(nvar));
        Value::Object(rec)
    })
}

pub fn u16robust(args: &[String]) -> i32 {
    let c = Common::parse(args);
    let maxlen: usize = c.value("--maxlen").and_then(|s| s.parse().ok()).unwrap_or(3);
    let alphabet: [u16; 7] = [0x61, 0xD800, 0xDBFF, 0xDC00, 0xDFFF, 0xFFFF, 0x0A];
    // all strings up to maxlen
    let mut strings: Vec<Vec<u16>> = vec![vec![]];
    let mut frontier: Vec<Vec<u16>> = vec![vec![]];
    for _ in 0..maxlen {
        let mut next = Vec::new();
        for s in &frontier {
            for &u in &alphabet {
                let mut t = s.clone();
                t.push(u);
                next.push(t);
            }
        }
        strings.extend(next.iter().cloned());
        frontier = next;
    }
    c.run(|idx, case| {
        let mut fl = Fl::from_json(&case["fl"]);
        fl.sp = case.get("sp").and_then(|v| v.as_u64()).unwrap_or(0) as u8;
        let pat = ast::render_pattern(&case["ast"], fl);
        let mut bad: Vec<Value> = Vec::new();
        let mut runs = 0u64;
        let mut matches = 0u64;
        let res = (compile(&pat, fl, false), compile(&pat, fl, true));
        if let (Ok(a), Ok(b)) = res {
            for s in &strings {
                for start in 0..=(s.len() + 1) {
                    for (name, re) in [("opt", &a), ("noopt", &b)] {
                        for ucs2 in [false, true] {
                            runs += 1;
                            let limit = s.len() + 8;
                            let r = catch_unwind(AssertUnwindSafe(|| {
                                fueled(200_000, || if ucs2 { drain(re.find_from_ucs2(s, start), limit) } else { drain(re.find_from_utf16(s, start), limit) })
                            }));
                            match r {
                                Err(e) => {
                                    if bad.len() < 5 {
                                        bad.push(json!({"s": s, "start": start, "var": name, "ucs2": ucs2, "what": panic_msg(e)}));
                                    }
                                }
                                Ok((ms, unfused)) => {
                                    matches += ms.len() as u64;
                                    let mut what: Option<String> = None;
                                    if unfused {
                                        what = Some("iterator yielded a match after returning None".into());
                                    }
                                    if ms.len() > limit {
                                        what = Some("more matches than positions".into());
                                    }
                                    let mut prev_start: i64 = -1;
                                    let mut prev_end: usize = 0;
                                    for m in &ms {
                                        let mut ranges = vec![m.range.clone()];
                                        ranges.extend(m.captures.iter().flatten().cloned());
                                        for r in ranges {
                                            if r.start > r.end || r.end > s.len() {
                                                what = Some(format!("range {}..{} outside 0..{}", r.start, r.end, s.len()));
                                            }
                                        }
                                        if (m.range.start as i64) <= prev_start || m.range.start < prev_end || m.range.start < start.min(s.len()) {
                                            what = Some(format!("match {}..{} out of order", m.range.start, m.range.end));
                                        }
                                        prev_start = m.range.start as i64;
                                        prev_end = m.range.end;
                                    }
                                    if let Some(w) = what {
                                        if bad.len() < 5 {
                                            bad.push(json!({"s": s, "start": start, "var": name, "ucs2": ucs2, "what": w}));
                                        }
                                    }
                                }
                            }
                        }
                    }
                }
            }
        }
        json!({"rid": idx, "pats": ast::cps_to_display(&pat), "flags": fl.as_string(), "runs": runs, "matches": matches, "bad": bad})
    })
}
