//! `runner threads`: impose TLC-generated interleavings (spec/SharedRegex.tla) on real threads
//! that share one Regex, through the gate hook (a thread proceeds through its next chunk of
//! instruction dispatches only when the schedule names it), and compare every result with
//! sequential use; plus an ungated stress on a cold Regex and all query orders on one thread.
use crate::ast::{self, Fl};
use crate::common::{cps_of, Common};
use crate::sem::{byte_rec, compile, Hay, MatchRec};
use serde_json::{json, Value};
use std::sync::{Arc, Barrier, Condvar, Mutex};

struct Turn {
    order: Vec<usize>,
    idx: usize,
    finished: Vec<bool>,
    /// the thread that is inside a chunk right now
    busy: Option<usize>,
}

impl Turn {
    /// index of the next schedule entry that names a thread still running
    fn current(&self) -> Option<usize> {
        (self.idx..self.order.len()).find(|&i| !self.finished[self.order[i]])
    }
}

fn search(re: &regress::Regex, text: &str, start: usize) -> Vec<MatchRec> {
    re.find_from(text, start).map(|m| byte_rec(&m)).collect()
}

#[cfg(all(regress_verif, not(feature = "f-alloc")))]
pub fn main(args: &[String]) -> i32 {
    let c = Common::parse(args);
    let sched_path = c.value("--schedules").expect("--schedules");
    let trials: usize = c.value("--stress-trials").and_then(|s| s.parse().ok()).unwrap_or(20);
    let schedules: Vec<(usize, Vec<usize>)> = std::fs::read_to_string(&sched_path)
        .expect("read schedules")
        .lines()
        .filter(|l| !l.trim().is_empty())
        .map(|l| {
            let v: Value = serde_json::from_str(l).unwrap();
            (v["threads"].as_u64().unwrap() as usize, v["sched"].as_array().unwrap().iter().map(|x| x.as_u64().unwrap() as usize - 1).collect())
        })
        .collect();
    c.run(|idx, case| {
        let mut fl = Fl::from_json(&case["fl"]);
        fl.sp = case.get("sp").and_then(|v| v.as_u64()).unwrap_or(0) as u8;
        let pat = ast::render_pattern(&case["ast"], fl);
        let mut wrong: Vec<Value> = Vec::new();
        let mut runs = 0u64;
        let mut stress = 0u64;
        let mut perms = 0u64;
        let Ok(reference) = compile(&pat, fl, false) else {
            return json!({"rid": idx, "pats": ast::cps_to_display(&pat), "flags": fl.as_string(), "runs": 0, "stress": 0, "perms": 0, "wrong": []});
        };
        // the queries: every haystack from offset 0 and from its second character
        let mut queries: Vec<(String, usize)> = Vec::new();
        for hv in case["hays"].as_array().unwrap() {
            if let Some(h) = Hay::new(&cps_of(hv)) {
                queries.push((h.text.clone(), 0));
                if h.cps.len() > 1 {
                    queries.push((h.text.clone(), h.cp_to_byte[1]));
                }
            }
        }
        // sequential results and step counts, each on a regex of its own. The expected sequence is
        // built from *fresh* searches - the first match at or after a cursor that moves as the
        // iterator's does - so that it cannot depend on anything searched before, not even on the
        // earlier matches of the same iterator.
        let mut expect: Vec<Vec<MatchRec>> = Vec::new();
        let mut steps: Vec<u64> = Vec::new();
        for (text, start) in &queries {
            let fresh = compile(&pat, fl, false).unwrap();
            regress::verif::begin(false, 0, u64::MAX);
            let _ = search(&fresh, text, *start);
            steps.push(regress::verif::end().steps);
            let mut seq: Vec<MatchRec> = Vec::new();
            let mut cur = *start;
            while cur <= text.len() && seq.len() <= text.len() + 2 {
                let one = compile(&pat, fl, false).unwrap();
                let Some(m) = one.find_from(text, cur).next() else { break };
                cur = if m.range.is_empty() {
                    match text[m.range.end..].chars().next() {
                        Some(ch) => m.range.end + ch.len_utf8(),
                        None => text.len() + 1,
                    }
                } else {
                    m.range.end
                };
                seq.push(byte_rec(&m));
            }
            expect.push(seq);
        }
        let _ = &reference;
        let nq = queries.len();
        if nq == 0 {
            return json!({"rid": idx, "pats": ast::cps_to_display(&pat), "flags": fl.as_string(), "runs": 0, "stress": 0, "perms": 0, "wrong": []});
        }
        // 1. schedule replay
        for (si, (nthreads, order)) in schedules.iter().enumerate() {
            // thread t runs query (rid + si + t) mod nq, and a second one when the schedule has
            // more entries for it than one query needs (the two-query configuration)
            let shared = Arc::new(compile(&pat, fl, false).unwrap()); // cold
            let before = shared.verif_program_json();
            let turn = Arc::new((Mutex::new(Turn { order: order.clone(), idx: 0, finished: vec![false; *nthreads], busy: None }), Condvar::new()));
            let mut handles = Vec::new();
            let two = order.len() > nthreads * 5;
            for t in 0..*nthreads {
                let my: Vec<usize> = if two { vec![(idx + si + t) % nq, (idx + si + t + 1) % nq] } else { vec![(idx + si + t) % nq] };
                let entries = order.iter().filter(|&&x| x == t).count().max(1) as u64;
                let total: u64 = my.iter().map(|&q| steps[q]).sum::<u64>().max(1);
                let chunk = (total + entries - 1) / entries;
                let re = shared.clone();
                let turn = turn.clone();
                let qs: Vec<(String, usize)> = my.iter().map(|&q| queries[q].clone()).collect();
                handles.push((my.clone(), std::thread::spawn(move || {
                    let tg = turn.clone();
                    let mut left_in_chunk = 0u64;
                    regress::verif::set_gate(Some(Box::new(move || {
                        if left_in_chunk == 0 {
                            let (lock, cv) = &*tg;
                            let mut g = lock.lock().unwrap();
                            loop {
                                if g.busy.is_none() {
                                    match g.current() {
                                        None => break,
                                        Some(i) if g.order[i] == t => {
                                            g.idx = i + 1; // this entry is being consumed
                                            g.busy = Some(t);
                                            break;
                                        }
                                        Some(_) => {}
                                    }
                                }
                                g = cv.wait(g).unwrap();
                            }
                            left_in_chunk = chunk;
                            drop(g);
                        }
                        left_in_chunk -= 1;
                        if left_in_chunk == 0 {
                            // chunk done: let the next scheduled thread go
                            let (lock, cv) = &*tg;
                            let mut g = lock.lock().unwrap();
                            if g.busy == Some(t) {
                                g.busy = None;
                            }
                            cv.notify_all();
                        }
                    })));
                    let out: Vec<Vec<MatchRec>> = qs.iter().map(|(text, start)| search(&re, text, *start)).collect();
                    regress::verif::set_gate(None);
                    let (lock, cv) = &*turn;
                    {
                        let mut g = lock.lock().unwrap();
                        g.finished[t] = true;
                        if g.busy == Some(t) {
                            g.busy = None;
                        }
                    }
                    cv.notify_all();
                    out
                })));
            }
            for (my, h) in handles {
                runs += 1;
                match h.join() {
                    Ok(out) => {
                        for (k, &q) in my.iter().enumerate() {
                            if out[k] != expect[q] && wrong.len() < 6 {
                                wrong.push(json!({"what": "interleaved result differs from sequential", "schedule": order, "query": [queries[q].0, queries[q].1],
                                    "expected": expect[q], "got": out[k]}));
                            }
                        }
                    }
                    Err(_) => {
                        if wrong.len() < 6 {
                            wrong.push(json!({"what": "a searching thread panicked", "schedule": order}));
                        }
                    }
                }
            }
            if shared.verif_program_json() != before && wrong.len() < 6 {
                wrong.push(json!({"what": "the compiled program changed during the searches", "schedule": order}));
            }
        }
        // 2. ungated stress: threads released together on a cold Regex and on a clone
        for trial in 0..trials {
            let shared = Arc::new(if trial % 2 == 0 { compile(&pat, fl, false).unwrap() } else { reference.clone() });
            let n = 8;
            let barrier = Arc::new(Barrier::new(n));
            let mut hs = Vec::new();
            for t in 0..n {
                let re = shared.clone();
                let b = barrier.clone();
                let q = (idx + trial + t / 2) % nq;
                let (text, start) = queries[q].clone();
                hs.push((q, std::thread::spawn(move || {
                    b.wait();
                    search(&re, &text, start)
                })));
            }
            for (q, h) in hs {
                stress += 1;
                match h.join() {
                    Ok(out) => {
                        if out != expect[q] && wrong.len() < 6 {
                            wrong.push(json!({"what": "concurrent result differs from sequential", "query": [queries[q].0, queries[q].1], "expected": expect[q], "got": out}));
                        }
                    }
                    Err(_) => {
                        if wrong.len() < 6 {
                            wrong.push(json!({"what": "a searching thread panicked (stress)"}));
                        }
                    }
                }
            }
        }
        // 2b. sustained concurrency: eight threads run all queries over and over on one Regex
        {
            let shared = Arc::new(compile(&pat, fl, false).unwrap());
            let qs = Arc::new(queries.clone());
            let ex = Arc::new(expect.clone());
            let barrier = Arc::new(Barrier::new(8));
            let rounds = (trials * 4).max(8);
            let mut hs = Vec::new();
            for t in 0..8usize {
                let (re, qs, ex, b) = (shared.clone(), qs.clone(), ex.clone(), barrier.clone());
                hs.push(std::thread::spawn(move || {
                    b.wait();
                    let mut bad: Option<(usize, Vec<MatchRec>)> = None;
                    let mut n = 0u64;
                    for r in 0..rounds {
                        for k in 0..qs.len() {
                            let q = (k + t * 3 + r) % qs.len();
                            let out = search(&re, &qs[q].0, qs[q].1);
                            n += 1;
                            if out != ex[q] && bad.is_none() {
                                bad = Some((q, out));
                            }
                        }
                    }
                    (n, bad)
                }));
            }
            for h in hs {
                match h.join() {
                    Ok((n, bad)) => {
                        stress += n;
                        if let Some((q, out)) = bad {
                            if wrong.len() < 6 {
                                wrong.push(json!({"what": "concurrent result differs from sequential (sustained)", "query": [queries[q].0, queries[q].1], "expected": expect[q], "got": out}));
                            }
                        }
                    }
                    Err(_) => {
                        if wrong.len() < 6 {
                            wrong.push(json!({"what": "a searching thread panicked (sustained stress)"}));
                        }
                    }
                }
            }
        }
        // 3. history independence: every order of up to four queries on one Regex
        let k = nq.min(4);
        let ids: Vec<usize> = (0..k).map(|j| (idx + j * 7) % nq).collect();
        let mut perm: Vec<usize> = (0..k).collect();
        let mut c2 = vec![0usize; k];
        let mut i = 0;
        let run_perm = |perm: &Vec<usize>, wrong: &mut Vec<Value>| {
            let re = compile(&pat, fl, false).unwrap();
            for &p in perm {
                let q = ids[p];
                let out = search(&re, &queries[q].0, queries[q].1);
                if out != expect[q] && wrong.len() < 6 {
                    wrong.push(json!({"what": "result depends on what was searched before", "order": perm.iter().map(|&p| ids[p]).collect::<Vec<_>>(),
                        "query": [queries[q].0, queries[q].1], "expected": expect[q], "got": out}));
                }
            }
        };
        run_perm(&perm, &mut wrong);
        perms += 1;
        while i < k {
            if c2[i] < i {
                if i % 2 == 0 { perm.swap(0, i) } else { perm.swap(c2[i], i) }
                run_perm(&perm, &mut wrong);
                perms += 1;
                c2[i] += 1;
                i = 0;
            } else {
                c2[i] = 0;
                i += 1;
            }
        }
        json!({"rid": idx, "pats": ast::cps_to_display(&pat), "flags": fl.as_string(), "runs": runs, "stress": stress, "perms": perms, "wrong": wrong})
    })
}

#[cfg(not(all(regress_verif, not(feature = "f-alloc"))))]
pub fn main(_args: &[String]) -> i32 {
    let _ = (Common::parse, cps_of, search, json!(0), Arc::new(Barrier::new(1)), Condvar::new(), Mutex::new(0));
    eprintln!("threads needs the verification hooks");
    2
}
