//! `runner searcher` (nightly, regress feature `pattern`): drive the real RegexSearcher through
//! several call schedules and record every step, plus what the str methods built on it return,
//! as one trace for spec/TraceSearcher.tla.
#![cfg(feature = "f-pattern")]
use crate::ast::{self, Fl};
use crate::common::Common;
use crate::sem::{compile, fueled, Hay};
use serde_json::{json, Value};
use std::io::Write;
use std::str::pattern::{Pattern, ReverseSearcher, SearchStep, Searcher};

fn step_json(ev: &str, s: SearchStep) -> Value {
    match s {
        SearchStep::Match(a, b) => json!({"ev": ev, "k": "M", "a": a, "b": b}),
        SearchStep::Reject(a, b) => json!({"ev": ev, "k": "R", "a": a, "b": b}),
        SearchStep::Done => json!({"ev": ev, "k": "D", "a": -1, "b": -1}),
    }
}

fn off(h: &str, piece: &str) -> [usize; 2] {
    let a = piece.as_ptr() as usize - h.as_ptr() as usize;
    [a, a + piece.len()]
}

pub fn main(args: &[String]) -> i32 {
    let c = Common::parse(args);
    let trace_path = c.value("--trace-out").expect("--trace-out");
    let seed: u64 = c.value("--seed").and_then(|s| s.parse().ok()).unwrap_or(1);
    let mut trace = std::io::BufWriter::new(std::fs::OpenOptions::new().create(true).append(true).open(&trace_path).expect("open trace"));
    let mut run_no: u64 = (c.shard.0 as u64) << 32;
    c.run(|idx, case| {
        let mut fl = Fl::from_json(&case["fl"]);
        fl.sp = case.get("sp").and_then(|v| v.as_u64()).unwrap_or(0) as u8;
        let pat = ast::render_pattern(&case["ast"], fl);
        let mut runs = 0u64;
        let mut events = 0u64;
        let mut fails: Vec<Value> = Vec::new();
        if let Ok(re) = compile(&pat, fl, false) {
            for (hi, hv) in case["hays"].as_array().unwrap().iter().enumerate() {
                let hcps: Vec<u32> = hv.as_array().unwrap().iter().map(|c| c.as_u64().unwrap() as u32).collect();
                let Some(hay) = Hay::new(&hcps) else { continue };
                let h: &str = &hay.text;
                let ms: Vec<[usize; 2]> = re.find_iter(h).map(|m| [m.start(), m.end()]).collect();
                let bounds: Vec<usize> = hay.cp_to_byte.clone();
                // schedules: forward only, reverse only, alternating, two seeded random interleavings
                let budget = 2 * (2 * ms.len() + 4);
                let mut rng = seed ^ ((idx as u64) << 20) ^ (hi as u64);
                let mut next_bit = || {
                    rng ^= rng << 13;
                    rng ^= rng >> 7;
                    rng ^= rng << 17;
                    rng & 1 == 1
                };
                let scheds: Vec<Vec<bool>> = vec![
                    vec![true; budget / 2],
                    vec![false; budget / 2],
                    (0..budget).map(|k| k % 2 == 0).collect(),
                    (0..budget).map(|_| next_bit()).collect(),
                    (0..budget).map(|_| next_bit()).collect(),
                ];
                for (si, sched) in scheds.iter().enumerate() {
                    run_no += 1;
                    runs += 1;
                    writeln!(trace, "{}", json!({"ev": "reset", "run": run_no, "rid": idx, "h": hi, "sched": si, "len": h.len(), "matches": ms, "bounds": bounds})).unwrap();
                    let r = std::panic::catch_unwind(std::panic::AssertUnwindSafe(|| fueled(5_000_000, || {
                        let mut out = Vec::new();
                        let mut s = (&re).into_searcher(h);
                        for &fwd in sched {
                            if fwd {
                                out.push(step_json("next", s.next()));
                            } else {
                                out.push(step_json("next_back", s.next_back()));
                            }
                        }
                        out
                    })));
                    match r {
                        Ok(evs) => {
                            for e in evs {
                                events += 1;
                                writeln!(trace, "{}", e).unwrap();
                            }
                        }
                        Err(e) => fails.push(json!({"h": hi, "sched": si, "what": crate::sem::panic_msg(e)})),
                    }
                    if si == 0 {
                        // the str methods
                        let r = std::panic::catch_unwind(std::panic::AssertUnwindSafe(|| {
                            let mi: Vec<[usize; 2]> = h.match_indices(&re).map(|(i, s)| [i, i + s.len()]).collect();
                            let rmi: Vec<[usize; 2]> = h.rmatch_indices(&re).map(|(i, s)| [i, i + s.len()]).collect();
                            let split: Vec<[usize; 2]> = h.split(&re).map(|p| off(h, p)).collect();
                            let rsplit: Vec<[usize; 2]> = h.rsplit(&re).map(|p| off(h, p)).collect();
                            json!({"ev": "api",
                                "find": h.find(&re).map(|x| x as i64).unwrap_or(-1),
                                "rfind": h.rfind(&re).map(|x| x as i64).unwrap_or(-1),
                                "contains": h.contains(&re),
                                "mi": mi, "rmi": rmi, "split": split, "rsplit": rsplit,
                                "sw": h.starts_with(&re), "ew": h.ends_with(&re),
                                "ts": off(h, h.trim_start_matches(&re))[0], "te": off(h, h.trim_end_matches(&re))[1]})
                        }));
                        match r {
                            Ok(e) => {
                                events += 1;
                                writeln!(trace, "{}", e).unwrap();
                            }
                            Err(e) => fails.push(json!({"h": hi, "sched": "api", "what": crate::sem::panic_msg(e)})),
                        }
                    }
                }
            }
        }
        trace.flush().unwrap();
        json!({"rid": idx, "pats": ast::cps_to_display(&pat), "flags": fl.as_string(), "runs": runs, "events": events, "fails": fails})
    })
}
