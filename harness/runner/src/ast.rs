//! Rendering of the specification's pattern ASTs (spec/RegexAST.tla) to pattern text.
//!
//! The renderer is deliberately dumb: one canonical spelling per node, with non-capturing
//! groups wherever the grammar would otherwise re-associate, so that the pattern the engine
//! parses denotes exactly the tree the specification evaluated.

use serde_json::Value;

#[derive(Debug, Clone, Copy, Default)]
pub struct Fl {
    pub i: bool,
    pub m: bool,
    pub s: bool,
    pub u: bool,
    pub v: bool,
    /// spelling of class characters: 0 canonical, 1 \u escapes, 2 \x escapes
    pub sp: u8,
}

impl Fl {
    pub fn from_json(v: &Value) -> Fl {
        let g = |k: &str| v.get(k).and_then(|x| x.as_bool()).unwrap_or(false);
        Fl {
            i: g("i"),
            m: g("m"),
            s: g("s"),
            u: g("u"),
            v: g("v"),
            sp: 0,
        }
    }
    pub fn to_regress(self, no_opt: bool) -> regress::Flags {
        let mut f = regress::Flags::default();
        f.icase = self.i;
        f.multiline = self.m;
        f.dot_all = self.s;
        f.unicode = self.u;
        f.unicode_sets = self.v;
        f.no_opt = no_opt;
        f
    }
    pub fn as_string(self) -> String {
        let mut s = String::new();
        for (b, c) in [(self.i, 'i'), (self.m, 'm'), (self.s, 's'), (self.u, 'u'), (self.v, 'v')] {
            if b {
                s.push(c)
            }
        }
        s
    }
}

fn push_str(out: &mut Vec<u32>, s: &str) {
    out.extend(s.chars().map(|c| c as u32));
}

const SYNTAX: &str = "^$\\.*+?()[]{}|/";

fn render_char(out: &mut Vec<u32>, c: u32) {
    if let Some(ch) = char::from_u32(c) {
        if SYNTAX.contains(ch) {
            out.push('\\' as u32);
            out.push(c);
            return;
        }
        if ch.is_ascii_digit() {
            // A digit must not fuse with a preceding backreference or brace.
            push_str(out, &format!("\\x{:02X}", c));
            return;
        }
        if c < 0x20 || c == 0x7f {
            push_str(out, &format!("\\x{:02X}", c));
            return;
        }
    }
    out.push(c);
}

fn render_class_char(out: &mut Vec<u32>, c: u32, fl: Fl) {
    // alternative spellings of the same character
    if fl.sp == 1 {
        if fl.u || fl.v {
            push_str(out, &format!("\\u{{{:X}}}", c));
            return;
        } else if c <= 0xFFFF {
            push_str(out, &format!("\\u{:04X}", c));
            return;
        }
    } else if fl.sp == 2 {
        if c <= 0xFF {
            push_str(out, &format!("\\x{:02x}", c));
            return;
        } else if c <= 0xFFFF {
            push_str(out, &format!("\\u{:04x}", c));
            return;
        }
    }
    if let Some(ch) = char::from_u32(c) {
        let needs = if fl.v {
            "()[]{}/-\\|&!#%,:;<=>@`~^$*+.?".contains(ch)
        } else {
            "\\]^-[".contains(ch)
        };
        if needs {
            // In v mode only syntax characters and reserved punctuators may be escaped;
            // `^ $ * + . ?` are SyntaxCharacters (IdentityEscape), the rest are
            // ClassSetReservedPunctuators or ClassSetSyntaxCharacters.
            out.push('\\' as u32);
            out.push(c);
            return;
        }
        if c < 0x20 || c == 0x7f {
            push_str(out, &format!("\\x{:02X}", c));
            return;
        }
    }
    out.push(c);
}

fn render_prop(out: &mut Vec<u32>, n: &Value) {
    push_str(out, if n["neg"].as_bool().unwrap() { "\\P{" } else { "\\p{" });
    push_str(out, n["name"].as_str().unwrap());
    push_str(out, "}");
}

/// A class-set expression (spec/ClassSet.tla). `top`: directly inside the brackets of a class,
/// where a union, an intersection or a subtraction may be written without nesting.
fn render_set(out: &mut Vec<u32>, x: &Value, fl: Fl, top: bool) {
    let k = x["k"].as_str().unwrap();
    let nested = |out: &mut Vec<u32>, y: &Value| {
        // operands of && and -- (and operators inside a union) must be ClassSetOperands
        match y["k"].as_str().unwrap() {
            "r" | "u" | "i" | "s" => {
                push_str(out, "[");
                render_set(out, y, fl, true);
                push_str(out, "]");
            }
            _ => render_set(out, y, fl, false),
        }
    };
    match k {
        "c" => render_class_char(out, x["c"].as_u64().unwrap() as u32, fl),
        "r" => {
            render_class_char(out, x["lo"].as_u64().unwrap() as u32, fl);
            push_str(out, "-");
            render_class_char(out, x["hi"].as_u64().unwrap() as u32, fl);
        }
        "e" => {
            push_str(out, "\\");
            push_str(out, x["e"].as_str().unwrap());
        }
        "p" => render_prop(out, x),
        "q" => {
            push_str(out, "\\q{");
            for (i, s) in x["strs"].as_array().unwrap().iter().enumerate() {
                if i > 0 {
                    push_str(out, "|");
                }
                for c in s.as_array().unwrap() {
                    render_class_char(out, c.as_u64().unwrap() as u32, fl);
                }
            }
            push_str(out, "}");
        }
        "u" | "i" | "s" => {
            if !top {
                push_str(out, "[");
            }
            let sep = match k {
                "u" => "",
                "i" => "&&",
                _ => "--",
            };
            for (i, y) in x["xs"].as_array().unwrap().iter().enumerate() {
                if i > 0 {
                    push_str(out, sep);
                }
                if k == "u" {
                    // a range may stand directly in a union
                    match y["k"].as_str().unwrap() {
                        "u" | "i" | "s" => nested(out, y),
                        _ => render_set(out, y, fl, false),
                    }
                } else {
                    nested(out, y);
                }
            }
            if !top {
                push_str(out, "]");
            }
        }
        "n" => {
            push_str(out, "[");
            if x["neg"].as_bool().unwrap() {
                push_str(out, "^");
            }
            render_set(out, &x["x"], fl, true);
            push_str(out, "]");
        }
        other => panic!("unknown class set expression {}", other),
    }
}

fn quant_str(min: i64, max: i64, greedy: bool) -> String {
    let mut s = match (min, max) {
        (0, -1) => "*".to_string(),
        (1, -1) => "+".to_string(),
        (0, 1) => "?".to_string(),
        (a, -1) => format!("{{{},}}", a),
        (a, b) if a == b => format!("{{{}}}", a),
        (a, b) => format!("{{{},{}}}", a, b),
    };
    if !greedy {
        s.push('?');
    }
    s
}

fn t(n: &Value) -> &str {
    n.get("t").and_then(|x| x.as_str()).unwrap_or("?")
}

fn name_of(n: &Value) -> Vec<u32> {
    n.get("name")
        .and_then(|x| x.as_array())
        .map(|a| a.iter().map(|c| c.as_u64().unwrap() as u32).collect())
        .unwrap_or_default()
}

/// Can a quantifier be appended directly to the rendering of this node?
fn is_atom(n: &Value) -> bool {
    matches!(t(n), "chr" | "dot" | "esc" | "cls" | "prop" | "vcls" | "grp" | "ncg" | "mod" | "bref" | "kref")
}

fn render_in_cat(out: &mut Vec<u32>, n: &Value, fl: Fl) {
    if t(n) == "alt" {
        push_str(out, "(?:");
        render(out, n, fl);
        push_str(out, ")");
    } else {
        render(out, n, fl);
    }
}

pub fn render(out: &mut Vec<u32>, n: &Value, fl: Fl) {
    match t(n) {
        "empty" => {}
        "chr" => render_char(out, n["c"].as_u64().unwrap() as u32),
        "dot" => push_str(out, "."),
        "esc" => {
            push_str(out, "\\");
            push_str(out, n["e"].as_str().unwrap());
        }
        "cls" => {
            push_str(out, "[");
            if n["neg"].as_bool().unwrap() {
                push_str(out, "^");
            }
            for it in n["items"].as_array().unwrap() {
                match it["k"].as_str().unwrap() {
                    "c" => render_class_char(out, it["c"].as_u64().unwrap() as u32, fl),
                    "r" => {
                        render_class_char(out, it["lo"].as_u64().unwrap() as u32, fl);
                        push_str(out, "-");
                        render_class_char(out, it["hi"].as_u64().unwrap() as u32, fl);
                    }
                    "e" => {
                        push_str(out, "\\");
                        push_str(out, it["e"].as_str().unwrap());
                    }
                    "p" => render_prop(out, it),
                    k => panic!("unknown class item {}", k),
                }
            }
            push_str(out, "]");
        }
        "prop" => render_prop(out, n),
        "vcls" => {
            push_str(out, "[");
            if n["neg"].as_bool().unwrap() {
                push_str(out, "^");
            }
            render_set(out, &n["x"], fl, true);
            push_str(out, "]");
        }
        "cat" => {
            for x in n["xs"].as_array().unwrap() {
                render_in_cat(out, x, fl);
            }
        }
        "alt" => {
            let xs = n["xs"].as_array().unwrap();
            if xs.is_empty() {
                // An alternation without alternatives cannot be written; it never occurs.
                panic!("empty alt");
            }
            for (k, x) in xs.iter().enumerate() {
                if k > 0 {
                    push_str(out, "|");
                }
                render_in_cat(out, x, fl);
            }
        }
        "grp" => {
            push_str(out, "(");
            let name = name_of(n);
            if !name.is_empty() {
                push_str(out, "?<");
                out.extend(name);
                push_str(out, ">");
            }
            render(out, &n["b"], fl);
            push_str(out, ")");
        }
        "ncg" => {
            push_str(out, "(?:");
            render(out, &n["b"], fl);
            push_str(out, ")");
        }
        "mod" => {
            push_str(out, "(?");
            for a in n["add"].as_array().unwrap() {
                push_str(out, a.as_str().unwrap());
            }
            let rem = n["rem"].as_array().unwrap();
            if !rem.is_empty() {
                push_str(out, "-");
                for a in rem {
                    push_str(out, a.as_str().unwrap());
                }
            }
            push_str(out, ":");
            render(out, &n["b"], fl);
            push_str(out, ")");
        }
        "rep" => {
            let b = &n["b"];
            if is_atom(b) {
                render(out, b, fl);
            } else {
                push_str(out, "(?:");
                render(out, b, fl);
                push_str(out, ")");
            }
            push_str(
                out,
                &quant_str(
                    n["min"].as_i64().unwrap(),
                    n["max"].as_i64().unwrap(),
                    n["greedy"].as_bool().unwrap(),
                ),
            );
        }
        "bref" => push_str(out, &format!("\\{}", n["n"].as_u64().unwrap())),
        "kref" => {
            push_str(out, "\\k<");
            out.extend(name_of(n));
            push_str(out, ">");
        }
        "look" => {
            let behind = n["behind"].as_bool().unwrap();
            let neg = n["neg"].as_bool().unwrap();
            push_str(
                out,
                match (behind, neg) {
                    (false, false) => "(?=",
                    (false, true) => "(?!",
                    (true, false) => "(?<=",
                    (true, true) => "(?<!",
                },
            );
            render(out, &n["b"], fl);
            push_str(out, ")");
        }
        "bol" => push_str(out, "^"),
        "eol" => push_str(out, "$"),
        "wb" => push_str(out, if n["neg"].as_bool().unwrap() { "\\B" } else { "\\b" }),
        other => panic!("unknown node type {}", other),
    }
}

pub fn render_pattern(ast: &Value, fl: Fl) -> Vec<u32> {
    let mut out = Vec::new();
    render(&mut out, ast, fl);
    out
}

pub fn cps_to_display(cps: &[u32]) -> String {
    cps.iter()
        .map(|&c| match char::from_u32(c) {
            Some(ch) if (0x20..0x7f).contains(&c) => ch.to_string(),
            _ => format!("\\u{{{:X}}}", c),
        })
        .collect()
}
