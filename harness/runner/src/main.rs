#![cfg_attr(feature = "f-pattern", feature(pattern))]
//! Conformance runner: drives the real regress crate with the cases the TLA+ specification
//! enumerates and records what it did, for TLC to judge.
mod ast;
mod common;
mod cpset;
mod escape;
mod fold;
mod grammar;
mod render;
mod replace;
mod sem;
mod threads;
#[cfg(feature = "f-pattern")]
mod searcher;
#[cfg(feature = "f-utf16")]
mod utf16;

fn main() {
    // Panics of the code under test are data; keep stderr quiet about them.
    std::panic::set_hook(Box::new(|_| {}));
    let args: Vec<String> = std::env::args().collect();
    if args.len() < 2 {
        eprintln!("usage: runner <command> [options]");
        std::process::exit(2);
    }
    let rest = &args[2..];
    let code = match args[1].as_str() {
        "sem" => sem::main(rest),
        "replace" => replace::main(rest),
        "escape" => escape::main(rest),
        "grammar" => grammar::main(rest),
        "render" => render::main(rest),
        "cpset" => cpset::main(rest),
        "fold" => fold::main(rest),
        "threads" => threads::main(rest),
        #[cfg(feature = "f-pattern")]
        "searcher" => searcher::main(rest),
        #[cfg(feature = "f-utf16")]
        "sem16" => utf16::sem16(rest),
        #[cfg(feature = "f-utf16")]
        "u16robust" => utf16::u16robust(rest),
        other => {
            eprintln!("unknown command {}", other);
            2
        }
    };
    std::process::exit(code);
}
