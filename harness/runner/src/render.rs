//! `runner render`: the pattern text (code points) of every semantic-family case.
use crate::ast::{self, Fl};
use crate::common::Common;
use serde_json::json;

pub fn main(args: &[String]) -> i32 {
    let c = Common::parse(args);
    c.run(|idx, case| {
        let fl = Fl::from_json(&case["fl"]);
        json!({"rid": idx, "p": ast::render_pattern(&case["ast"], fl), "flags": fl.as_string()})
    })
}
