//! `runner render`: the pattern text (code points) of every semantic-family case.
use crate::ast::{self, Fl};
use crate::common::Common;
use serde_json::json;

pub fn main(args: &[String]) -> i32 {
    let c = Common::parse(args);
    c.run(|idx, case| {
        let mut fl = Fl::from_json(&case["fl"]);
        fl.sp = case.get("sp").and_then(|v| v.as_u64()).unwrap_or(0) as u8;
        json!({"rid": idx, "p": ast::render_pattern(&case["ast"], fl), "flags": fl.as_string()})
    })
}
