//! `runner fold --oracle <case.json> --out <obs.ndjson>`: what the engine's case-insensitivity
//! mechanisms do, for every code point (direct sweeps through the hooks) and, at the regex
//! level, for every code point that has a non-trivial class in the oracle or in the engine.
use crate::common::Common;
use serde_json::{json, Value};
use std::collections::{BTreeMap, BTreeSet};
use std::io::Write;

#[cfg(all(regress_verif, not(feature = "f-alloc")))]
pub fn main(args: &[String]) -> i32 {
    use regress::verif as V;
    let c = Common::parse(args);
    let oracle_path = c.value("--oracle").expect("--oracle");
    let oracle: Value = serde_json::from_str(&std::fs::read_to_string(&oracle_path).expect("read oracle")).expect("oracle json");
    let mut out = std::io::BufWriter::new(std::fs::File::create(&c.out).expect("open out"));
    let all = || (0u32..=0x10FFFF);

    // 1. the partition induced by Canonicalize as the matcher applies it (fold_code_point)
    for (mode, uni) in [("legacy", false), ("u", true)] {
        let mut groups: BTreeMap<u32, Vec<u32>> = BTreeMap::new();
        for cp in all() {
            groups.entry(V::fold_code_point(cp, uni)).or_default().push(cp);
        }
        let classes: Vec<Vec<u32>> = groups.into_values().filter(|v| v.len() > 1).collect();
        writeln!(out, "{}", json!({"kind": "partition", "mech": "fold_code_point", "mode": mode, "classes": classes})).unwrap();
    }
    // 2. compile-time expansion of a literal (expand_code_point): every distinct non-trivial expansion,
    //    and the code points whose expansion does not contain themselves or is not shared by its members
    for (mode, uni) in [("legacy", false), ("u", true)] {
        let mut classes: BTreeSet<Vec<u32>> = BTreeSet::new();
        let mut odd: Vec<u32> = Vec::new();
        let mut seen: BTreeMap<u32, Vec<u32>> = BTreeMap::new();
        for cp in all() {
            let mut e = V::expand_code_point(cp, true, uni);
            e.sort_unstable();
            e.dedup();
            if !e.contains(&cp) {
                odd.push(cp);
            }
            if e.len() > 1 {
                seen.insert(cp, e.clone());
                classes.insert(e);
            }
        }
        for (cp, e) in &seen {
            for d in e {
                if seen.get(d) != Some(e) && !odd.contains(cp) {
                    odd.push(*cp);
                }
            }
        }
        writeln!(out, "{}", json!({"kind": "partition", "mech": "expand_code_point", "mode": mode,
            "classes": classes.into_iter().collect::<Vec<_>>(), "odd": odd})).unwrap();
    }
    // 3. closure of a class under case folding (add_icase_code_points), on singletons
    {
        let mut classes: BTreeSet<Vec<u32>> = BTreeSet::new();
        let mut odd: Vec<u32> = Vec::new();
        for cp in all() {
            let mut s = V::VerifCodePointSet::new();
            s.add_one(cp);
            let r = s.add_icase_code_points();
            let mut members: Vec<u32> = Vec::new();
            for (a, b) in r.intervals() {
                for x in a..=b {
                    members.push(x);
                }
            }
            if !members.contains(&cp) {
                odd.push(cp);
            }
            if members.len() > 1 {
                classes.insert(members);
            }
        }
        writeln!(out, "{}", json!({"kind": "partition", "mech": "add_icase_code_points", "mode": "u",
            "classes": classes.into_iter().collect::<Vec<_>>(), "odd": odd})).unwrap();
    }
    // 3b. closure of intervals: short windows around every non-trivial oracle class
    {
        let mut starts: BTreeSet<u32> = BTreeSet::new();
        for cl in oracle["scf_classes"].as_array().unwrap() {
            for m in cl.as_array().unwrap() {
                starts.insert((m.as_u64().unwrap() as u32) & !0x3F);
            }
        }
        for a in starts {
            let b = (a + 0x5F).min(0x10FFFF);
            let mut s = V::VerifCodePointSet::new();
            s.add(a, b);
            let r = s.add_icase_code_points();
            writeln!(out, "{}", json!({"kind": "closure", "iv": [a, b], "result": r.intervals()})).unwrap();
        }
    }
    // 3c. closure of every short interval that begins at (or just before) a cased code point: the
    //     interval folding code works range by range, with strides, and depends on where the interval
    //     starts inside a range
    {
        let mut starts: BTreeSet<u32> = BTreeSet::new();
        for key in ["scf_classes"] {
            for cl in oracle[key].as_array().unwrap() {
                for m in cl.as_array().unwrap() {
                    let c = m.as_u64().unwrap() as u32;
                    starts.insert(c);
                    starts.insert(c.saturating_sub(1));
                }
            }
        }
        for a in starts {
            for k in 1..=4u32 {
                let b = (a + k).min(0x10FFFF);
                let mut s = V::VerifCodePointSet::new();
                s.add(a, b);
                let r = s.add_icase_code_points();
                writeln!(out, "{}", json!({"kind": "closure", "iv": [a, b], "result": r.intervals()})).unwrap();
            }
        }
    }
    // 4. regex level
    let mut cands: BTreeSet<u32> = BTreeSet::new();
    for key in ["scf_classes", "legacy_classes"] {
        for cl in oracle[key].as_array().unwrap() {
            for m in cl.as_array().unwrap() {
                cands.insert(m.as_u64().unwrap() as u32);
            }
        }
    }
    for cp in all() {
        if V::fold_code_point(cp, true) != cp || V::fold_code_point(cp, false) != cp {
            cands.insert(cp);
        }
    }
    let class_of = |key: &str, cp: u32| -> Vec<u32> {
        for cl in oracle[key].as_array().unwrap() {
            let v: Vec<u32> = cl.as_array().unwrap().iter().map(|m| m.as_u64().unwrap() as u32).collect();
            if v.contains(&cp) {
                return v;
            }
        }
        vec![cp]
    };
    // index the oracle classes once
    let mut idx: BTreeMap<(&str, u32), Vec<u32>> = BTreeMap::new();
    for key in ["scf_classes", "legacy_classes"] {
        for cl in oracle[key].as_array().unwrap() {
            let v: Vec<u32> = cl.as_array().unwrap().iter().map(|m| m.as_u64().unwrap() as u32).collect();
            for &m in &v {
                idx.insert((key, m), v.clone());
            }
        }
    }
    let _ = class_of;
    let hex = |c: u32, uni: bool| -> String {
        if uni { format!("\\u{{{:X}}}", c) } else if c <= 0xFFFF { format!("\\u{:04X}", c) } else { char::from_u32(c).unwrap().to_string() }
    };
    for &cp in &cands {
        if char::from_u32(cp).is_none() {
            continue;
        }
        let mut cand: BTreeSet<u32> = BTreeSet::new();
        for key in ["scf_classes", "legacy_classes"] {
            if let Some(v) = idx.get(&(key, cp)) {
                cand.extend(v.iter().copied());
            }
        }
        for uni in [false, true] {
            cand.extend(V::expand_code_point(cp, true, uni));
        }
        cand.insert(cp);
        for d in [cp.wrapping_sub(1), cp + 1, 0x61, 0x41] {
            if char::from_u32(d).is_some() {
                cand.insert(d);
            }
        }
        let cand: Vec<u32> = cand.into_iter().filter(|d| char::from_u32(*d).is_some()).collect();
        for flags in ["i", "iu", "iv"] {
            let uni = flags != "i";
            let mut f = regress::Flags::default();
            f.icase = true;
            f.unicode = flags == "iu";
            f.unicode_sets = flags == "iv";
            let lit = regress::Regex::with_flags(&format!("^{}$", hex(cp, uni)), f);
            let cls = regress::Regex::with_flags(&format!("^[{}]$", hex(cp, uni)), f);
            let ncls = regress::Regex::with_flags(&format!("^[^{}]$", hex(cp, uni)), f);
            let bref = regress::Regex::with_flags("^(.)\\1$", f);
            let bref_lb = regress::Regex::with_flags("(?<=^\\1(.))$", f);
            let (Ok(lit), Ok(cls), Ok(ncls), Ok(bref), Ok(bref_lb)) = (lit, cls, ncls, bref, bref_lb) else {
                writeln!(out, "{}", json!({"kind": "rxfail", "c": cp, "flags": flags})).unwrap();
                continue;
            };
            let mut r: BTreeMap<&str, Vec<u32>> = BTreeMap::new();
            for &d in &cand {
                let dch = char::from_u32(d).unwrap();
                let h: String = dch.to_string();
                if lit.find(&h).is_some() {
                    r.entry("lit").or_default().push(d);
                }
                if cls.find(&h).is_some() {
                    r.entry("cls").or_default().push(d);
                }
                if ncls.find(&h).is_none() {
                    r.entry("ncls").or_default().push(d);
                }
                let pair: String = [char::from_u32(cp).unwrap(), dch].iter().collect();
                if bref.find(&pair).is_some() {
                    r.entry("bref").or_default().push(d);
                }
                if bref_lb.find(&pair).is_some() {
                    r.entry("bref_lb").or_default().push(d);
                }
            }
            writeln!(out, "{}", json!({"kind": "rx", "c": cp, "flags": flags, "cand": cand,
                "lit": r.get("lit").cloned().unwrap_or_default(), "cls": r.get("cls").cloned().unwrap_or_default(),
                "ncls": r.get("ncls").cloned().unwrap_or_default(), "bref": r.get("bref").cloned().unwrap_or_default(),
                "bref_lb": r.get("bref_lb").cloned().unwrap_or_default()})).unwrap();
        }
    }
    // 5. \w and \b under iu / iv: the word characters
    for flags in ["", "i", "iu", "iv", "u"] {
        let mut f = regress::Flags::default();
        f.icase = flags.contains('i');
        f.unicode = flags.contains('u');
        f.unicode_sets = flags.contains('v');
        let w = regress::Regex::with_flags("^\\w$", f).unwrap();
        let nw = regress::Regex::with_flags("^\\W$", f).unwrap();
        let cw = regress::Regex::with_flags("^[\\w]$", f).unwrap();
        let cnw = regress::Regex::with_flags("^[\\W]$", f).unwrap();
        let b = regress::Regex::with_flags("^.\\b", f).unwrap();
        let mut words = BTreeMap::new();
        for (name, re, want) in [("w", &w, true), ("W", &nw, false), ("cw", &cw, true), ("cW", &cnw, false), ("b", &b, true)] {
            let mut v: Vec<u32> = Vec::new();
            for cp in all() {
                if cp == 0x0A || cp == 0x0D || cp == 0x2028 || cp == 0x2029 {
                    continue;
                }
                let Some(ch) = char::from_u32(cp) else { continue };
                let mut h = ch.to_string();
                if name == "b" {
                    h.push(' ');
                }
                if re.find(&h).is_some() == want {
                    v.push(cp);
                }
            }
            words.insert(name, v);
        }
        writeln!(out, "{}", json!({"kind": "word", "flags": flags, "w": words["w"], "W": words["W"], "cw": words["cw"], "cW": words["cW"], "b": words["b"]})).unwrap();
    }
    out.flush().unwrap();
    0
}

#[cfg(not(all(regress_verif, not(feature = "f-alloc"))))]
pub fn main(_args: &[String]) -> i32 {
    let _ = (Common::parse, json!(0), Value::Null, BTreeMap::<u32, u32>::new(), BTreeSet::<u32>::new());
    eprintln!("fold needs the verification hooks");
    2
}
