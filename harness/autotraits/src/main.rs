//! C19, compile-time half: Regex, Match and Error are Send + Sync (the property claims no more:
//! the match iterators hold raw positions and are not Send).
//! This crate compiles exactly when they are; the check builds it and reads the compiler's verdict.
fn assert_send_sync<T: Send + Sync>() {}

fn main() {
    assert_send_sync::<regress::Regex>();
    assert_send_sync::<regress::Match>();
    assert_send_sync::<regress::Error>();
    assert_send_sync::<regress::Flags>();
    // a Regex can be cloned and moved to another thread, a Match can be shared by reference
    let re = regress::Regex::new("a+").unwrap();
    let re2 = re.clone();
    let m = std::thread::spawn(move || re2.find("caat")).join().unwrap().unwrap();
    let m_ref = &m;
    std::thread::scope(|s| {
        s.spawn(move || assert_eq!(m_ref.range(), 1..3));
    });
    println!("autotraits ok");
}
